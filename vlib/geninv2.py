"""Inventory-level generator additions after the round-3 seeded changes: one class file
reachable under two class names (symlinked file or directory), so that anything keyed by
the file instead of the name shows; stems that merely end in `init`."""
import posixpath


def class_name_of(path):
    """classes/d1/c0.yml -> (['d1'], 'c0', 'd1.c0'); init files name their directory."""
    assert path.startswith("classes/")
    segs = path[len("classes/"):].split("/")
    stem = segs[-1].rsplit(".", 1)[0]
    d = segs[:-1]
    if stem == "init":
        return d[:-1], d[-1] if d else "", ".".join(d)
    return d, stem, ".".join(d + [stem])


def add_aliases(r, case, p_dir=50):
    """Add symlinks that make existing class files reachable under a second name in another
    directory, and make nodes (and sometimes classes) include the alias names, alone or next
    to the real name. Returns the number of aliases added."""
    files = case["files"]
    cls = [f for f in files if f["path"].startswith("classes/") and f.get("kind", "file") == "file"]
    if not cls:
        return 0
    aliases = []   # (alias dotted name, real dotted name)
    top_dirs = sorted({f["path"].split("/")[1] for f in cls if f["path"].count("/") >= 2})
    if top_dirs and r.chance(p_dir, 100):
        d = r.choice(top_dirs)
        link = r.choice(["l1", "zz", "al"])
        files.append({"path": "classes/" + link, "kind": "symlink", "target": d})
        for f in cls:
            if f["path"].startswith("classes/%s/" % d):
                _, _, nm = class_name_of(f["path"])
                aliases.append((link + nm[len(d):], nm))
    else:
        for f in r.shuffle(cls)[: r.range(1, 2)]:
            d, stem, nm = class_name_of(f["path"])
            if f["path"].rsplit("/", 1)[-1].startswith("init."):
                continue
            nd = r.choice([x for x in (["k1"], ["k1", "k2"], [], ["d1"], ["e1"]) if x != d])
            base = f["path"].rsplit("/", 1)[-1]
            lp = "classes/" + "/".join(nd + [base])
            if any(g["path"] == lp for g in files):
                continue
            target = posixpath.relpath(f["path"], posixpath.dirname(lp))
            files.append({"path": lp, "kind": "symlink", "target": target})
            aliases.append((".".join(nd + [stem]), nm))
    if not aliases:
        return 0
    nodes = [f for f in files if f["path"].startswith("nodes/") and isinstance(f.get("content"), dict)]
    for f in nodes:
        if not r.chance(70, 100):
            continue
        incs = f["content"].setdefault("classes", [])
        for _ in range(r.range(1, 2)):
            al, real = r.choice(aliases)
            mode = r.choice(["alias", "real_then_alias", "alias_then_real"])
            add = {"alias": [al], "real_then_alias": [real, al], "alias_then_real": [al, real]}[mode]
            pos = r.below(len(incs) + 1)
            incs[pos:pos] = add
    # different nodes using the real and the alias name (cross-node leakage on one instance)
    if len(nodes) >= 2:
        al, real = r.choice(aliases)
        nodes[0]["content"].setdefault("classes", []).append(real)
        nodes[-1]["content"].setdefault("classes", []).append(al)
    return len(aliases)


def relref_groups(r, case, n_nodes=(6, 14)):
    """An include written as a reference whose value is a RELATIVE class name, used from classes in
    two or three directories reached by different nodes: whatever is remembered about "the class
    called .rimpl" for one group is wrong for the other."""
    from . import genv as G
    groups = ["g%d" % k for k in range(r.range(2, 3))]
    extra = [{"path": "classes/rdefs.yml", "content": {"parameters": G.enc({"rimpl": r.choice([".rimpl", "..rimpl", ".sub.rimpl"])})}}]
    for g in groups:
        body = {"classes": ["${rimpl}"], "parameters": G.enc({"entry": g})}
        if r.chance(1, 2):
            body["applications"] = ["entry_" + g]
        extra.append({"path": "classes/%s/entry.yml" % g, "content": body})
        extra.append({"path": "classes/%s/rimpl.yml" % g, "content": {"parameters": G.enc({"which": g, "wl": [g]}), "applications": ["impl_" + g]}})
        if r.chance(2, 3):
            extra.append({"path": "classes/%s/sub/rimpl.yml" % g, "content": {"parameters": G.enc({"which": g + ".sub"})}})
    if r.chance(2, 3):
        extra.append({"path": "classes/rimpl.yml", "content": {"parameters": G.enc({"which": "root"})}})
    for k in range(r.range(*n_nodes)):
        g = groups[k % len(groups)]
        extra.append({"path": "nodes/r%02d.yml" % k, "content": {"classes": ["rdefs", "%s.entry" % g]}})
    have = {f["path"] for f in case["files"]}
    case["files"].extend(f for f in extra if f["path"] not in have)
    return case


def scale_inventory(r, tier, kind=None, n_nodes=None, failing=True):
    """Inventories past the sizes at which an implementation might switch strategy: long include
    chains, wide include lists, many classes, many nodes, long names; every class appends its name to
    `order` so that merge order stays observable."""
    from . import genv as G
    kind = kind or r.choice(["chain", "fan", "many_nodes", "long_names", "deep_dirs", "diamond_grid"])
    big = [20, 40, 70] if tier == "quick" else [20, 40, 70, 130, 300]
    files = []

    def cls_body(name, incs, apps=None):
        b = {"classes": list(incs), "parameters": G.M([["order", [name]], ["last", name], ["m", G.M([[name.replace(".", "_"), G.I(1)]])]])}
        if apps is not None:
            b["applications"] = apps
        return b

    if kind == "chain":
        n = r.choice(big)
        for i in range(n):
            files.append({"path": "classes/c%03d.yml" % i, "content": cls_body("c%03d" % i, ["c%03d" % (i + 1)] if i + 1 < n else [], ["a%03d" % i] if i % 3 == 0 else ["~a%03d" % (i + 3)])})
        files.append({"path": "nodes/n.yml", "content": cls_body("n", ["c000"] + (["c%03d" % r.below(n)] if r.chance(1, 2) else []))})
    elif kind == "fan":
        n = r.choice([33, 40, 70] if tier == "quick" else [33, 40, 70, 130, 520])
        for i in range(n):
            files.append({"path": "classes/f%03d.yml" % i, "content": cls_body("f%03d" % i, [], ["a%03d" % i, "~a%03d" % ((i * 7) % n)])})
        order = r.shuffle(["f%03d" % i for i in range(n)])
        files.append({"path": "classes/hub.yml", "content": cls_body("hub", order[: n // 2] + [order[0]])})
        files.append({"path": "nodes/n.yml", "content": cls_body("n", ["hub"] + order[n // 2:] + [order[1], "hub"], ["a%03d" % r.below(n), "~a%03d" % r.below(n), "a%03d" % r.below(n)])})
    elif kind == "many_nodes":
        n = n_nodes or r.choice([70, 130] if tier == "quick" else [70, 130, 520])
        k = r.range(3, 8)
        for i in range(k):
            files.append({"path": "classes/k%d.yml" % i, "content": cls_body("k%d" % i, ["k%d" % (i + 1)] if i + 1 < k and r.chance(1, 2) else [], ["app%d" % i])})
        for j in range(n):
            incs = ["k%d" % ((j + d) % k) for d in range(r.range(0, 3))]
            body = cls_body("n%03d" % j, incs, ["own%03d" % j] + (["~app%d" % (j % k)] if j % 5 == 0 else []))
            if failing and j % 17 == 3 and r.chance(1, 2):
                body["parameters"]["m"].append(["boom", "${no:such}"])
            files.append({"path": "nodes/n%03d.yml" % j, "content": body})
    elif kind == "long_names":
        ln = r.choice([24, 33, 65, 130, 250])
        a = "a" * ln
        b = "b" * (ln - 1) + "x"
        files.append({"path": "classes/%s/%s.yml" % (a, b), "content": cls_body(a + "." + b, [".sib"])})
        files.append({"path": "classes/%s/sib.yml" % a, "content": cls_body(a + ".sib", [])})
        files.append({"path": "nodes/%s.yml" % ("n" * ln), "content": {"classes": [a + "." + b], "parameters": G.M([["k" * ln, "v" * ln], ["r", "${%s}" % ("k" * ln)], ["e", "x${_reclass_:name:short}y"]]), "applications": ["p" * ln, "~" + "p" * ln, "p" * ln]}})
    elif kind == "deep_dirs":
        d = r.choice([9, 17, 33])
        segs = ["d%d" % i for i in range(d)]
        files.append({"path": "classes/" + "/".join(segs) + "/leaf.yml", "content": cls_body(".".join(segs + ["leaf"]), ["." * r.range(1, d + 2) + "up"])})
        for cut in sorted({0, 1, d // 2, d - 1, d}):
            files.append({"path": "classes/" + "/".join(segs[:cut] + ["up"]) + ".yml", "content": cls_body(".".join(segs[:cut] + ["up"]), [])})
        files.append({"path": "nodes/" + "/".join(segs[: min(d, 12)]) + "/n.yml", "content": cls_body("n", [".".join(segs + ["leaf"])])})
        return {"op": "inventory", "config": {"compose_node_name": r.chance(1, 2)}, "files": files, "fam": "scale:" + kind}
    else:
        w, h = r.range(3, 6), r.choice([6, 12] if tier == "quick" else [6, 12, 30])
        for y in range(h):
            for x in range(w):
                incs = ["g%02d_%d" % (y + 1, xx) for xx in range(w) if r.chance(60, 100)] if y + 1 < h else []
                files.append({"path": "classes/g%02d_%d.yml" % (y, x), "content": cls_body("g%02d_%d" % (y, x), incs, ["a%d" % x] if (x + y) % 2 else ["~a%d" % x])})
        files.append({"path": "nodes/n.yml", "content": cls_body("n", ["g00_%d" % x for x in range(w)])})
    return {"op": "inventory", "config": {}, "files": files, "fam": "scale:" + kind}


def special_files(r, case):
    """Add directory entries that are neither regular files nor directories but carry a YAML extension (FIFO, socket,
    link to a device): they define nothing and must never be opened. The case gets a watchdog."""
    kinds = ["fifo", "fifo", "socket", "devnull"]
    n = 0
    for _ in range(r.range(1, 3)):
        k = r.choice(kinds)
        where = r.choice(["nodes", "classes", "classes/sub", "nodes/g"])
        name = r.choice(["pipe", "sock", "dev", "p.q", "init"]) + "." + r.choice(["yml", "yaml"])
        path = where + "/" + name
        if any(f["path"] == path for f in case["files"]):
            continue
        if k == "devnull":
            case["files"].append({"path": path, "kind": "symlink", "target": "/dev/null"})
        else:
            case["files"].append({"path": path, "kind": k})
        n += 1
        if where.startswith("classes") and r.chance(1, 2):
            # some node tries to include the name the entry would define
            nm = path[len("classes/"):].rsplit(".", 1)[0].replace("/", ".")
            for f in case["files"]:
                if f["path"].startswith("nodes/") and isinstance(f.get("content"), dict):
                    f["content"].setdefault("classes", []).append(nm)
                    break
    case["watchdog_s"] = 10
    case["fam"] = "special_files"
    return n


def rewrite_step(r, case):
    """A lifecycle step that edits one class (or node) file in place to content of the same length (so that size and a
    coarse timestamp cannot tell the versions apart): the instance must render what is on disk now."""
    import copy
    cands = [f for f in case["files"] if isinstance(f.get("content"), dict) and isinstance(f["content"].get("parameters"), dict)]
    if not cands:
        return None
    f = r.choice(cands)
    new = copy.deepcopy(f["content"])
    changed = False
    for e in new["parameters"].get("m", []):
        if e[0] == "last" and isinstance(e[1], str) and e[1]:
            e[1] = "".join("z" if ch.isalnum() else ch for ch in e[1])
            changed = changed or e[1] != dict(map(tuple, [(x[0] if isinstance(x[0], str) else str(x[0]), 0) for x in []])).get("", e[1]) or True
    apps = new.get("applications")
    if apps:
        new["applications"] = [("~" if a.startswith("~") else "") + "q" * (len(a) - (1 if a.startswith("~") else 0)) for a in apps]
        changed = True
    if not changed:
        return None
    return {"rewrite": {"path": f["path"], "content": new}}


def linked_inventory(r):
    """The inventory directory is reached through a symlink and the config file names nodes/classes with `..`:
    textual normalisation and the OS disagree about which directories are meant (decoys sit at the textual place)."""
    from . import genv as G
    def body(name, incs=()):
        return {"classes": list(incs), "parameters": G.enc({"who": name, "order": [name]})}
    depth = r.choice([["real", "inv"], ["releases", "v2", "inventory"], ["x", "inv"]])
    up = r.choice([1, 1, 2]) if len(depth) >= 3 else 1
    base = depth[: len(depth) - up]          # where ../(../)nodes resolves for the OS
    files = []
    ncls = r.range(1, 3)
    for i in range(ncls):
        sub = r.choice([[], ["d1"]])
        files.append({"path": "/".join(base + ["classes"] + sub + ["c%d.yml" % i]), "content": body(".".join(sub + ["c%d" % i]))})
    cls_names = [".".join(f["path"].split("/")[len(base) + 1:]).rsplit(".", 1)[0] for f in files]
    for i in range(r.range(1, 3)):
        sub = r.choice([[], ["g"]])
        files.append({"path": "/".join(base + ["nodes"] + sub + ["n%d.yml" % i]), "content": body("n%d" % i, r.shuffle(cls_names)[: r.range(0, ncls)])})
    # decoys where a textual `..` would land: the link's own parent
    # the textual resolution of the `..` must stay inside the scratch root (its name differs from run to run)
    link = r.choice(["current", "live/current"]) if up == 1 else r.choice(["live/current", "a/b/current"])
    lexical_base = link.split("/")[:-1]
    for _ in range(up - 1):
        lexical_base = lexical_base[:-1]
    files.append({"path": "/".join(lexical_base + ["nodes", "ghost.yml"]), "content": body("ghost")})
    files.append({"path": "/".join(lexical_base + ["classes", "ghostc.yml"]), "content": body("ghostc")})
    compose = r.chance(1, 2)
    opts = [["nodes_uri", "../" * up + "nodes"], ["classes_uri", "../" * up + "classes"], ["compose_node_name", compose]]
    return {"op": "inventory", "config": {"inventory_link": [link, "/".join(depth)], "compose_node_name": compose, "file_options": r.shuffle(opts)},
            "files": files, "fam": "linked_inventory"}


YAML_DOCS = [
    # anchors, aliases, merge keys (single, list of merges, own keys before inherited ones, nested)
    "parameters:\n  defaults: &d\n    ports: [80]\n    tls: false\n  web:\n    <<: *d\n    tls: true\n  api:\n    <<: *d\n    ~ports: [8080]\n",
    "parameters:\n  a: &a {x: 1, y: [1]}\n  b: &b {y: [2], z: 3}\n  c:\n    <<: [*a, *b]\n    w: 0\n  d: *a\n",
    "parameters:\n  base: &base\n    k: v\n    n: {deep: [1, 2]}\n  outer:\n    inner:\n      <<: *base\n      n: {deep: [3]}\n",
    "parameters:\n  l: &l [1, 2]\n  m: {a: *l, b: *l}\n  r: \"${m:a}\"\n",
    # block scalars (trailing newline kept / stripped), folded, multi-line plain, explicit tags, quoted keys
    "parameters:\n  lit: |\n    line1\n    ${ref}\n  strip: |-\n    ${ref}\n  fold: >\n    a\n    b ${ref}\n  ref: R\n",
    "parameters:\n  s: !!str 123\n  f: !!float 1\n  n: !!null ''\n  t: !!bool 'true'\n  e: \"x${s}y\"\n",
    "parameters:\n  'quoted key': 1\n  \"dq\\tkey\": 2\n  ? complex simple\n  : 3\n  r: \"${quoted key}\"\n",
    "parameters:\n  multi: a\n    b\n    c\n  u: \"\\u00e9\\U0001F600\\x41\\0end\"\n  empty: ''\n  tilde: ~\n  q: '~'\n",
    # duplicate keys in one mapping (a YAML-level error), merge of a non-mapping (error), alias to scalar
    "parameters:\n  a: 1\n  a: 2\n",
    "parameters:\n  s: &s 5\n  m:\n    <<: *s\n",
    "classes: &c [base]\napplications: *c\nparameters: {x: 1}\n",
    "parameters: &p\n  self: 1\nextra: *p\n",
]


def yaml_features(r):
    """Class and node files written as YAML text using anchors, aliases, merge keys, block scalars, tags and quoted keys
    (the harness hands the model what the YAML libraries make of it)."""
    docs = r.shuffle(list(YAML_DOCS))[: r.range(1, 3)]
    files = [{"path": "classes/base.yml", "raw": "parameters: {ref: base-ref, order: [base]}\n"}]
    incs = ["base"]
    for i, d in enumerate(docs):
        files.append({"path": "classes/y%d.yml" % i, "raw": d})
        incs.append("y%d" % i)
    node = "classes: [%s]\nparameters:\n  own: n\n  web: {extra: \"${ref}\"}\n" % ", ".join(r.shuffle(incs) if r.chance(1, 2) else incs)
    files.append({"path": "nodes/n.yml", "raw": node})
    if r.chance(1, 2):
        files.append({"path": "nodes/m.yml", "raw": r.choice(YAML_DOCS)})
    return {"op": "inventory", "config": {}, "files": files, "fam": "yaml_features"}


def numeric_names(r):
    """Class, include and application names that YAML would read as numbers, booleans or nulls when unquoted: in a list
    of strings the entry is its source text (22.10 stays 22.10)."""
    toks = ["22.10", "22.1", "1.50", "0x10", "16", "1e3", "007", "7", "+5", ".5", "0.5", "True", "true", "no", "1_000", "2024.10"]
    a, b = r.choice(toks), r.choice(toks)
    files = []
    def clsfile(name):
        # dotted names live in directories: 22.10 -> classes/22/10.yml
        return "classes/" + name.replace(".", "/") + ".yml"
    seen = set()
    for nm in {a, b, "22.1"}:
        pth = clsfile(nm)
        if pth in seen or nm.startswith(".") or nm.startswith("+") and False:
            continue
        seen.add(pth)
        files.append({"path": pth, "raw": "parameters: {who_%s: '%s'}\napplications: [app_%s]\n" % (re_sub(nm), nm, re_sub(nm))})
    files.append({"path": "nodes/n.yml", "raw": "classes: [%s, %s]\napplications: [%s, ~%s, %s]\n" % (a, b, a, b, b)})
    rel = r.choice([".inf", ".5", ".1", ".nan", ".x"])
    files.append({"path": "classes/env/user.yml", "raw": "classes: [%s]\nparameters: {u: 1}\n" % rel})
    files.append({"path": "classes/env/" + rel[1:] + ".yml", "raw": "parameters: {rel: '%s'}\n" % rel})
    files.append({"path": "nodes/m.yml", "raw": "classes: [env.user]\n"})
    return {"op": "inventory", "config": {"ignore_class_notfound": r.chance(1, 3)}, "files": files, "fam": "numeric_names"}


def re_sub(nm):
    import re as _re
    return _re.sub(r"[^A-Za-z0-9]", "_", nm)


def broken_file_among_good(r):
    """One class or node file that cannot be parsed among healthy ones: the failure of that file must not leak into the
    rendering of anything else, in any order and on any thread."""
    from . import geninv as GI
    c = GI.gen_inventory(r, n_classes=r.range(2, 4), shape=r.choice(["tree", "dag"]), n_nodes=r.range(3, 8))
    bad = r.choice(["a: [unclosed", "classes: notalist\n", "parameters: [1, 2]\n", "parameters: {=k: 1, k: 2}\n", "parameters: {x: !tagged 1}\n", "\tbad: tab"])
    where = r.choice(["node", "class"])
    if where == "node":
        c["files"].append({"path": "nodes/a_broken.yml", "raw": bad})
        c["files"].append({"path": "nodes/zz_broken.yml", "raw": bad})
    else:
        c["files"].append({"path": "classes/brokencls.yml", "raw": bad})
        for f in c["files"]:
            if f["path"].startswith("nodes/") and isinstance(f.get("content"), dict) and r.chance(1, 2):
                f["content"].setdefault("classes", []).insert(0, "brokencls")
    c["repeat"] = 2
    c["fam"] = "broken_file"
    return c
