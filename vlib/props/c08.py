"""C08 — reference cycles are errors; acyclic references never are."""
from .params_base import ParamsProp, has_ref
from ..prng import Rng
from .. import genv as G
from .. import core


def chain(n, start_val="end"):
    d = {"c%d" % i: "${c%d}" % (i + 1) for i in range(n)}
    d["c%d" % n] = start_val
    return G.P(d)


CLAUSES = [
    G.P({"a": "${a}"}),
    G.P({"a": "${b}", "b": "${a}"}),
    G.P({"a": "${b}", "b": "${c}", "c": "${a}"}),
    G.P({"a": "x${a}"}),
    G.P({"a": ["${a}"]}),
    G.P({"a": {"k": "${a}"}}),
    G.P({"a": {"k": "${a:k}"}}),
    G.P({"a": "${b:k}", "b": {"k": "${a}"}}),
    G.P({"a": 1}, {"a": "${a}"}),
    G.P({"sel": "a", "a": "${${sel}}"}),
    G.P({"a": "${b}"}, {"b": [1]}, {"b": "${a}"}),
    # acyclic: repeated use, diamonds
    G.P({"v": 1, "l": ["${v}", "${v}", "${v}"], "m": {"x": "${v}", "y": "${v}"}, "s": "${v}${v}${v}"}),
    G.P({"d": "x", "b": "${d}", "c": "${d}", "a": ["${b}", "${c}"], "a2": "${b}${c}", "a3": {"p": "${b}", "q": "${c}"}}),
    G.P({"v": {"k": 1}, "a": "${v}"}, {"a": "${v}"}, {"a": "${v}"}),
    G.P({"t": {"k": "${u}"}, "u": "x", "r1": "${t:k}", "r2": "${t:k}", "r3": "${t}"}),
    # the same target reached twice at each point where the resolution state is copied
    G.P({"d": {"k": "v"}, "t": "${d}"}, {"t": "${d}"}, {"u": "${t:k}"}),                       # layers met during a path lookup
    G.P({"c": {"k": "v"}, "a": "${c}", "b": "${c}", "t": "${a}"}, {"t": "${b}"}, {"u": "${t:k}", "w": "x${t:k}"}),
    G.P({"d": ["x"], "t": "${d}"}, {"t": "${d}"}, {"t": "${d}"}),                              # layers of one key
    G.P({"c": ["x"], "a": "${c}", "t": "${a}"}, {"t": "${c}"}),
    G.P({"d": "s", "t": "${d}-${d}", "u": "${d}${d}${d}"}),                                     # pieces of a string
    G.P({"sel": "k", "d": {"k": "v"}, "t": ["${d:${sel}}", "${d:${sel}}"], "u": "${d:${sel}}${d:${sel}}"}),
    G.P({"p": {"t": "${d}"}, "d": {"k": 1}}, {"p": {"t": "${d}"}}, {"u": "${p:t:k}"}),
    G.P({"cluster": "prod", "prod": {"label": "${cluster}"}, "settings": "${${cluster}}"}),      # whole path is one nested reference
    G.P({"sel": "tgt", "tgt": ["${sel}"], "t": "${${sel}}", "u": "x${${sel}}"}),
    chain(10), chain(62), chain(63), chain(64), chain(65), chain(66),
    G.P(dict([("c%d" % i, "p${c%d}" % (i + 1)) for i in range(64)] + [("c64", "e")])),
]


class C08(ParamsProp):
    id = "C08"
    rule = ("op params on reference graphs with controlled cycles (direct, through nested paths, layers, list elements, "
            "mapping values, embedded pieces) and acyclic sharing (repeats, diamonds, chains of 62-66 around the depth "
            "limit); compared: outcome class ok(tree)/loop/depth/other error. Non-trivial = >=2 references; distinct by "
            "input hash.")
    explanation = ("Termination of the real process (no unbounded recursion) is observed, not proved: every case returns "
                   "within the harness timeout; the theorem part is about the model. Wall-clock bounds are outside the claim.")

    def corpus(self):
        return [dict(c) for c in CLAUSES] + super().corpus()

    families = {"deep_ref_layers": 40, "many_refs": 60, "embedded_chain": 80, "sibling_fullpath_refs": 150, "ref_layer_self_lookup": 60}

    def base_cases(self, tier, seed):
        N = 1200 if tier == "quick" else 30000
        for i in range(N):
            r = Rng(seed, "C08", i)
            layers = G.shaped_stack(r, r.range(2, 6), r.range(1, 3), r.range(0, 2), 0, p_stray=3, strs=["x", "y", "a"])
            G.add_refs(r, layers, r.range(2, 8), p_cyclic=r.choice([0, 15, 40]), p_dangling=2, p_embedded=30)
            yield {"op": "params", "layers": layers}
            if i % 2 == 0:
                yield {"op": "params", "layers": G.clone_point_diamond(Rng(seed, "C08d", i))}

    def nontrivial(self, req, impl, reply):
        return str(req["layers"]).count("${") >= 2


PROP = C08()
