"""C15 — relative class names resolve against the including class's directory."""
import itertools
from .inv_base import InvProp
from ..prng import Rng
from .. import geninv as GI
from .. import geninv2 as GI2
from .. import genv as G
from .. import core
from .c01 import inv, cls

CLAUSES_ABS = []
for loc in (None, [], ["d1"], ["d1", "d2"], ["d1", "d2", "d3", "d4"]):
    for dots in range(0, 7):
        for rest in ("c", "e.f", "", "c.", "x..y"):
            CLAUSES_ABS.append({"op": "abs", "loc": loc, "cls": "." * dots + rest})

CLAUSES = [
    # one dot = same directory; two dots = one level up; never above the root
    inv({"classes/d1/d2/a.yml": cls("d1.d2.a", [".b", "..c", "...r", ".......r"]), "classes/d1/d2/b.yml": cls("d1.d2.b"),
         "classes/d1/c.yml": cls("d1.c"), "classes/r.yml": cls("r"), "nodes/n.yml": cls("n", ["d1.d2.a"])}),
    # init class: location is the grandparent
    inv({"classes/d1/x/init.yml": cls("d1.x", [".sib", "..top"]), "classes/d1/sib.yml": cls("d1.sib"), "classes/top.yml": cls("top"),
         "nodes/n.yml": cls("n", ["d1.x"])}),
    # nodes resolve relative to the root
    inv({"classes/a.yml": cls("a"), "classes/d/b.yml": cls("d.b"), "nodes/g/n.yml": cls("n", [".a", "..d.b", ".d.b"])}),
    # node in a sub-directory with composed names: its own relative includes still resolve at the root
    inv({"classes/app.yml": cls("app"), "classes/prod/app.yml": cls("prod.app"), "classes/other.yml": cls("other"),
         "nodes/prod/web1.yml": cls("web1", ["other", ".app"])}, compose_node_name=True),
    inv({"classes/app.yml": cls("app"), "nodes/prod/eu/web1.yml": cls("web1", [".app", "..app", "...app"])}, compose_node_name=True),
    inv({"classes/app.yml": cls("app"), "nodes/_hid/web1.yml": cls("web1", [".app"]), "nodes/g/web2.yml": cls("web2", [".app"])}, compose_node_name=False),
    # an include written as a REFERENCE whose value is a relative name: anchored at the class that contains the entry
    # (with and without a class of the same name nearer the root), and from a node at the root
    inv({"classes/defaults.yml": cls("defaults", flavour=".variant", up="..top", deep=".sub2.leaf"), "classes/sub/main.yml": cls("sub.main", ["${flavour}", "${up}", "${deep}"]),
         "classes/sub/variant.yml": cls("sub.variant"), "classes/variant.yml": cls("variant"), "classes/top.yml": cls("top"), "classes/sub/top.yml": cls("sub.top"),
         "classes/sub/sub2/leaf.yml": cls("sub.sub2.leaf"), "classes/sub2/leaf.yml": cls("sub2.leaf"),
         "nodes/n1.yml": cls("n1", ["defaults", "sub.main"]), "nodes/n2.yml": cls("n2", ["defaults", "${flavour}", "sub.main"])}),
    inv({"classes/defaults.yml": cls("defaults", flavour=".variant"), "classes/sub/main.yml": cls("sub.main", ["${flavour}"]),
         "classes/sub/variant.yml": cls("sub.variant"), "nodes/n1.yml": cls("n1", ["defaults", "sub.main"])}),
    inv({"classes/defaults.yml": cls("defaults", flavour="..variant"), "classes/a/b/main.yml": cls("a.b.main", ["${flavour}", "x${flavour}"]),
         "classes/a/variant.yml": cls("a.variant"), "classes/a/b/variant.yml": cls("a.b.variant"), "classes/x/variant.yml": cls("x.variant"),
         "classes/x..variant.yml": cls("odd"), "nodes/n1.yml": cls("n1", ["defaults", "a.b.main"])}),
    # relative name with a further dotted suffix
    inv({"classes/d1/a.yml": cls("d1.a", [".e.f"]), "classes/d1/e/f.yml": cls("d1.e.f"), "nodes/n.yml": cls("n", ["d1.a"])}),
]


class C15(InvProp):
    id = "C15"
    parts = ("nodes",)
    rule = ("op abs (hook verif_abs_class_name) for locations of depth 0-4 (and none = node) x dot counts 0-6 x remainders "
            "with further dots; op inventory on class trees of depth<=3 where includes are spelled relatively (from classes at "
            "any depth, init classes and nodes), each paired with a twin in which every relative include is replaced by the "
            "absolute name it denotes: both must render identically (implementation-only) and agree with the model. "
            "Non-trivial = a name with >=1 leading dot; distinct by input hash.")
    exhaustive = {"quick": "abs: 5 locations x dot counts 0..6 x 5 remainders (175)", "thorough": "same"}

    def corpus(self):
        return [dict(c) for c in CLAUSES_ABS] + [dict(c) for c in CLAUSES] + super().corpus()

    def cases(self, tier, seed):
        for j in range(30 if tier == "quick" else 600):
            yield GI2.numeric_names(Rng(seed, "C15:num", j))
        N = 250 if tier == "quick" else 6000
        for i in range(N):
            r = Rng(seed, "C15", i)
            segs = ["d1", "d2", "e", "x-y", "q", "r-1.2", "v.2", ".h"]
            loc = r.choice([None, [], [r.choice(segs)], [r.choice(segs), r.choice(segs)], [r.choice(segs) for _ in range(r.range(3, 5))]])
            yield {"op": "abs", "loc": loc, "cls": "." * r.range(0, 7) + r.choice(["c", "c.d", "c.d.e", "", "_x", "a-b"])}
            c = GI.gen_inventory(r, n_classes=r.range(2, 6), shape=r.choice(["tree", "dag", "chain"]), nested=True,
                                 relative=r.choice([60, 100]), n_nodes=r.range(1, 2), init_classes=r.choice([0, 40]),
                                 node_dirs=r.chance(2, 3), compose=r.chance(2, 3))
            # nodes spell some of their includes relatively too (they resolve at the classes root)
            for f in c["files"]:
                if f["path"].startswith("nodes/"):
                    f["content"]["classes"] = [("." * r.range(1, 3) + x) if (not x.startswith(".") and r.chance(1, 2)) else x for x in f["content"].get("classes", [])]
            yield c
            # absolute twin: same graph, relative=0  (same rng stream replayed)
            r2 = Rng(seed, "C15", i)
            r2.choice([0]); r2.choice([0])  # keep streams simple: twin built by rewriting below
            yield make_twin(c)
            if i % 4 == 1:
                # class directories whose names contain dots: climbing with `..` must go up one DIRECTORY
                r4 = Rng(seed, "C15:dotted", i)
                cd = GI.gen_inventory(r4, n_classes=r4.range(2, 6), shape=r4.choice(["tree", "dag", "chain"]), nested="dotted",
                                      relative=r4.choice([70, 100]), n_nodes=r4.range(1, 2))
                cd["fam"] = "dotted_dirs"
                yield cd
                yield make_twin(cd)
            if i % 5 == 2:
                # includes written as references whose values are relative names, used from classes in several directories
                r5 = Rng(seed, "C15:relref", i)
                cr = GI.gen_inventory(r5, n_classes=r5.range(1, 3), shape="tree", n_nodes=1)
                GI2.relref_groups(r5, cr, n_nodes=(2, 5))
                cr["fam"] = "relref_groups"
                yield cr
            if i % 3 == 0:
                # the same class file under two names in different directories (symlink): its relative includes
                # resolve against the directory of the name it was included by
                r3 = Rng(seed, "C15:alias", i)
                ca = GI.gen_inventory(r3, n_classes=r3.range(2, 6), shape=r3.choice(["tree", "dag", "chain"]), nested=True,
                                      relative=r3.choice([60, 100]), n_nodes=r3.range(1, 3))
                if GI2.add_aliases(r3, ca):
                    ca["fam"] = "aliases"
                    yield ca

    def post_check(self, results):
        out = []
        byhash = {}
        for (req, impl, reply) in results:
            if req.get("op") == "inventory" and "twin_of" not in req:
                byhash[core.case_hash(req)] = impl
        for (req, impl, reply) in results:
            t = req.get("twin_of")
            if not t or t not in byhash or not isinstance(impl, dict):
                continue
            o = byhash[t]
            for n, rr in (impl.get("nodes") or {}).items():
                ro = (o.get("nodes") or {}).get(n)
                if ro is None:
                    continue
                a, b = core.norm_result(rr, True), core.norm_result(ro, True)
                if a != b:
                    # class lists may legitimately differ in spelling only inside the raw include entries? no:
                    # entries are made absolute on load, so everything must be equal
                    out.append((req, impl, reply, dict(agree=True, spec_ok=None, impl_oracle=False, concrete=True,
                                                       why="node %s renders differently when relative includes are written absolutely (twin %s)" % (n, t))))
                    break
        return out

    def judge(self, req, impl, reply):
        if req.get("op") == "abs":
            return super(InvProp, self).judge(req, impl, reply)
        return super().judge(req, impl, reply)

    def nontrivial(self, req, impl, reply):
        if req.get("op") == "abs":
            return req["cls"].startswith(".")
        return any(isinstance(x, str) and (x.startswith(".") or "${" in x) for f in req["files"] for x in f.get("content", {}).get("classes", []))

    def tags(self, req, impl, reply):
        if req.get("op") == "abs":
            d = len(req["cls"]) - len(req["cls"].lstrip("."))
            return ["abs:dots=%d" % d, "abs:depth=%s" % (len(req["loc"]) if req["loc"] is not None else "node")]
        return super().tags(req, impl, reply)


def class_loc(path):
    segs = path[len("classes/"):].rsplit(".", 1)[0].split("/")
    if segs[-1] == "init":
        return segs[:-2]
    return segs[:-1]


def abs_name(loc, name):
    if not name.startswith("."):
        return name
    k = len(name) - len(name.lstrip("."))
    rest = name[k:]
    keep = loc[: max(0, len(loc) - (k - 1))]
    return "".join(s + "." for s in keep) + rest


def make_twin(c):
    t = {"op": "inventory", "config": dict(c["config"]), "files": [], "twin_of": core.case_hash(c)}
    for f in c["files"]:
        f2 = {"path": f["path"], "content": dict(f["content"])}
        loc = class_loc(f["path"]) if f["path"].startswith("classes/") else []
        f2["content"]["classes"] = [abs_name(loc, x) for x in f["content"].get("classes", [])]
        t["files"].append(f2)
    return t


PROP = C15()
