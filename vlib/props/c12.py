"""C12 — rendering is deterministic and independent of threads and order."""
import json
import os
from .inv_base import InvProp
from ..prng import Rng
from .. import geninv as GI
from .. import core
from .c13 import CLAUSES as C13_CLAUSES

THREADS = [1, 2, 3, 4, 8, 16]


def project(impl):
    """What must be identical across thread counts / runs (the failing node that an inventory
    error names may vary with hash order)."""
    if not isinstance(impl, dict):
        return impl
    d = {k: v for k, v in impl.items() if k != "inventory"}
    invr = impl.get("inventory")
    if isinstance(invr, dict) and "err" in invr:
        d["inventory"] = "err"
    else:
        d["inventory"] = invr
    return json.dumps(d, sort_keys=True)


class C12(InvProp):
    id = "C12"
    parts = ("discover", "nodes", "inventory")
    rule = ("op inventory with 2-10 nodes sharing classes (references, layered keys, failing nodes), each case run in separate "
            "harness processes with RAYON_NUM_THREADS in {1,2,3,4,8,16} (twice each) and, on one instance, with node renders "
            "repeated in shuffled orders interleaved with whole-inventory renders; every observation must equal the first and "
            "the model's. some cases have 20-50 nodes so that one rayon job renders several nodes. Non-trivial = >=3 nodes; distinct by input hash.")
    explanation = ("Schedules are explored, not enumerated: 6 thread counts x 2 runs per case, plus shuffled repetition on one "
                   "instance. The proved part is the aggregation law (any permutation of per-node results gives the same "
                   "inventory) and that the model's renderNode is a function; absence of shared mutable state in the Rust code is "
                   "checked by a source census (tools/site_census.py), not proved.")

    def static_checks(self):
        rc, res = core.site_census_check()
        if res.get("shared_state") != res.get("expected_shared_state") or "error" in res:
            return [("census", {"property": "C12", "kind": "shared-state-census",
                                "found": res.get("shared_state"), "expected": res.get("expected_shared_state"), "error": res.get("error"),
                                "note": "a construct that can carry state between renders appeared in /repo/src; the model's "
                                        "claim that rendering is a function of (inventory, config, node) no longer rests on the source",
                                "broken": {"correspondence": "tools/site_census.py shared-state table", "theorems_depending_on_it": ["Reclass.C12.inventory_perm_invariant", "Reclass.C12.inventory_entry_eq_single"]}})]
        return []

    def corpus(self):
        out = []
        # every node enables its own application and negates everybody else's: a pending negation
        # left behind by one render must never reach another node
        for n in (3, 8, 40):
            files = [{"path": "nodes/d%d.yml" % i, "content": {"applications": ["app%d" % i] + ["~app%d" % j for j in range(n) if j != i]}} for i in range(n)]
            out.append({"op": "inventory", "config": {}, "files": files, "repeat": 2})
        files = [{"path": "classes/neg.yml", "content": {"applications": ["~shared", "~other"]}},
                 {"path": "nodes/a.yml", "content": {"classes": ["neg"]}}, {"path": "nodes/b.yml", "content": {"applications": ["shared"]}},
                 {"path": "nodes/c.yml", "content": {"applications": ["other", "shared"]}}, {"path": "nodes/d.yml", "content": {"classes": ["neg"], "applications": ["x"]}}]
        out.append({"op": "inventory", "config": {}, "files": files, "repeat": 2})
        # a class-name reference resolving to a RELATIVE name, used from classes in two directories:
        # anything remembered per worker about "the class called .impl" is wrong for the other group
        from .c01 import inv, cls
        files = {"classes/defs.yml": cls("defs", impl=".impl"),
                 "classes/x/entry.yml": cls("x.entry", ["${impl}"]), "classes/y/entry.yml": cls("y.entry", ["${impl}"]),
                 "classes/x/impl.yml": cls("x.impl", which="x"), "classes/y/impl.yml": cls("y.impl", which="y")}
        for i in range(20):
            files["nodes/x%02d.yml" % i] = cls("x%02d" % i, ["defs", "x.entry"])
            files["nodes/y%02d.yml" % i] = cls("y%02d" % i, ["defs", "y.entry"])
        c = inv(files)
        c["repeat"] = 1
        out.append(c)
        # one layer overwrites several constants of one mapping (top level and nested): which key the error names is
        # part of the observation and must not vary between renders, nodes, runs or thread counts
        consts = {"=k%d" % i: i for i in range(8)}
        files = {"classes/base.yml": cls("base", cfg=dict(consts), **consts),
                 "classes/over.yml": cls("over", **{"k%d" % i: 100 + i for i in (4, 2, 7, 5, 1, 6)}),
                 "classes/overn.yml": cls("overn", cfg={"k%d" % i: 100 + i for i in (3, 0, 5, 6, 1, 7)}),
                 "classes/overr.yml": cls("overr", cfg="${alt}", alt={"k%d" % i: 100 + i for i in (6, 2, 0, 7, 3)})}
        for i in range(12):
            files["nodes/c%02d.yml" % i] = cls("c%02d" % i, ["base", ["over", "overn", "overr"][i % 3]])
        c = inv(files)
        c["repeat"] = 3
        out.append(c)
        # one node FILE under two node names (symlinked file; symlinked directory with composed names) whose parameters
        # are derived from the node's own metadata: each name's inventory entry equals its own single render
        from .. import genv as _G
        meta_params = _G.enc({"fqdn": "${_reclass_:name:short}.example.com", "tier": "${_reclass_:name:path}", "full": "${_reclass_:name:full}"})
        for compose in (False, True):
            files = [{"path": "classes/common.yml", "content": {"parameters": _G.enc({"who": "${_reclass_:name:full}"})}},
                     {"path": "nodes/web01.yml", "content": {"classes": ["common"], "parameters": meta_params}},
                     {"path": "nodes/www.yml", "kind": "symlink", "target": "web01.yml"},
                     {"path": "nodes/aaa.yml", "kind": "symlink", "target": "web01.yml"},
                     {"path": "nodes/prod/app1.yml", "content": {"classes": ["common"], "parameters": meta_params}},
                     {"path": "nodes/staging", "kind": "symlink", "target": "prod"}]
            if not compose:
                files = files[:4]
            out.append({"op": "inventory", "config": {"compose_node_name": compose}, "files": files, "repeat": 2})
        for c in C13_CLAUSES:
            c = dict(c)
            c["repeat"] = 2
            out.append(c)
        return out + super().corpus()

    def judge(self, req, impl, reply):
        if req.get("op") == "py_inventory":
            from .c19 import PROP as _C19
            return _C19.judge(req, impl, reply)
        return self._inv_judge(req, impl, reply)

    def cases(self, tier, seed):
        from .. import geninv2 as _GI2
        from .. import genv as _G
        # each node's entry in the full inventory = rendering that node alone, through the Python API as well, for
        # names that look like file names
        for nm in (["backup.yaml.yml", "backup.yml"], ["legacy.yml.yaml"], ["a.yml.yml", "a.yaml.yml", "a.yml"]):
            yield {"op": "py_inventory", "config": {}, "files": [{"path": "nodes/" + n, "content": {"parameters": _G.enc({"who": n}), "applications": [n]}} for n in nm]}
        yield {"op": "py_inventory", "config": {"compose_node_name": True}, "files": [
            {"path": "nodes/formats/yml.yml", "content": {"parameters": _G.enc({"who": "formats.yml"})}},
            {"path": "nodes/formats.yml", "content": {"parameters": _G.enc({"who": "formats"})}}]}
        for j in range(10 if tier == "quick" else 100):
            c = _GI2.linked_inventory(Rng(seed, "C12:linked", j))
            c["repeat"] = 1
            yield c
        for j in range(12 if tier == "quick" else 150):
            yield _GI2.broken_file_among_good(Rng(seed, "C12:broken", j))
        N = 60 if tier == "quick" else 400
        for i in range(N):
            r = Rng(seed, "C12", i)
            c = GI.gen_inventory(r, n_classes=r.range(2, 6), shape=r.choice(["tree", "dag", "cyclic"]), n_nodes=r.range(2, 10),
                                 fail_nodes=r.choice([0, 0, 1, 2]), param_refs=60, refnames=r.choice([0, 50]),
                                 node_dirs=r.chance(1, 2), compose=r.chance(1, 2))
            c["repeat"] = 2 if tier == "quick" else 4
            c["repeat_seed"] = r.below(1 << 30)
            if i % 6 == 1:
                # many more nodes than worker threads, so that one rayon job renders several nodes
                extra = r.range(20, 50)
                base_nodes = [f for f in c["files"] if f["path"].startswith("nodes/")]
                for k in range(extra):
                    src = base_nodes[k % len(base_nodes)] if base_nodes else {"content": {}}
                    cont = dict(src["content"])
                    cont["applications"] = ["big%d" % k] + ["~big%d" % ((k + d) % extra) for d in (1, 2, 3)]
                    c["files"].append({"path": "nodes/x%02d.yml" % k, "content": cont})
                c["repeat"] = 1
            if i % 6 == 3:
                from .c01 import cls as _cls
                from .. import genv as _G
                groups = ["g%d" % k for k in range(r.range(2, 3))]
                extra = [{"path": "classes/rdefs.yml", "content": {"parameters": _G.enc({"rimpl": r.choice([".rimpl", "..rimpl", ".sub.rimpl"])})}}]
                for g in groups:
                    extra.append({"path": "classes/%s/entry.yml" % g, "content": {"classes": ["${rimpl}"], "parameters": _G.enc({"entry": g})}})
                    extra.append({"path": "classes/%s/rimpl.yml" % g, "content": {"parameters": _G.enc({"which": g, "wl": [g]})}})
                    extra.append({"path": "classes/%s/sub/rimpl.yml" % g, "content": {"parameters": _G.enc({"which": g + ".sub"})}})
                extra.append({"path": "classes/rimpl.yml", "content": {"parameters": _G.enc({"which": "root"})}})
                for k in range(r.range(16, 40)):
                    g = groups[k % len(groups)]
                    extra.append({"path": "nodes/r%02d.yml" % k, "content": {"classes": ["rdefs", "%s.entry" % g]}})
                c["files"].extend(extra)
                c["repeat"] = 1
            if i % 6 == 5:
                from .. import geninv2 as GI2
                ca = GI.gen_inventory(r, n_classes=r.range(2, 6), shape=r.choice(["tree", "dag"]), nested=True, relative=70, n_nodes=r.range(3, 9))
                if GI2.add_aliases(r, ca):
                    ca["repeat"] = 2
                    ca["repeat_seed"] = r.below(1 << 30)
                    yield ca
            if i % 6 == 2:
                from .. import geninv2 as GI2
                st = GI2.rewrite_step(r, c)
                if st:
                    c["lifecycle"] = [st]
            if i % 2 == 0:
                # cross-node application negations
                nodes = [f for f in c["files"] if f["path"].startswith("nodes/")]
                for k, f in enumerate(nodes):
                    f["content"]["applications"] = ["own%d" % k] + ["~own%d" % j for j in range(len(nodes)) if j != k and r.chance(2, 3)]
            yield c

    def _inv_judge(self, req, impl, reply):
        j = super().judge(req, impl, reply)
        if j.get("skip") or not isinstance(impl, dict):
            return j
        rp = impl.get("repeat")
        if rp is not None and not rp.get("stable", True):
            j["impl_oracle"] = False
            j["concrete"] = True
            j["why"] = (j["why"] + "; " if j["why"] else "") + "; ".join(rp.get("diffs", []))
        # the model's own statement: single renders = inventory entries
        if (impl.get("inventory") or {}).get("ok", {}).get("entries_equal_single") is False:
            j["impl_oracle"] = False
            j["concrete"] = True
        return j

    def post_check(self, results):
        """Thread-count differential in separate processes."""
        out = []
        reqs = [dict(rq) for (rq, im, rp) in results]
        base = [project(im) for (rq, im, rp) in results]
        self.thread_runs = 0
        for t in THREADS:
            for rep in range(2):
                env = dict(core.ENV)
                env["RAYON_NUM_THREADS"] = str(t)
                env["RVH_SERIAL"] = "1"
                inp = "\n".join(json.dumps(c, ensure_ascii=False) for c in reqs) + "\n"
                rc, o, e = core.sh([core.RVH, "run"], inp=inp, timeout=3600, env=env)
                if rc != 0:
                    out.append((reqs[0], None, {"model": None}, dict(agree=False, spec_ok=None, impl_oracle=False, concrete=False,
                                                                       why="harness crashed with RAYON_NUM_THREADS=%d: %s" % (t, e[-200:]))))
                    continue
                self.thread_runs += 1
                for k, line in enumerate(o.splitlines()):
                    d = json.loads(line)
                    if project(d.get("impl")) != base[k]:
                        out.append((reqs[k], d.get("impl"), results[k][2],
                                    dict(agree=True, spec_ok=None, impl_oracle=False, concrete=True,
                                         why="observation with RAYON_NUM_THREADS=%d (run %d) differs from the baseline run" % (t, rep))))
                        break
        return out

    def nontrivial(self, req, impl, reply):
        return sum(1 for f in req["files"] if f["path"].startswith("nodes/")) >= 3


PROP = C12()
