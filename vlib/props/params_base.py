"""Shared machinery for the properties observed through op `params`
(merge a stack of layer mappings with Mapping::merge, then render_with_self)."""
import json
from ..runner import Prop
from ..prng import Rng
from .. import core
from .. import gendeep as D


def has_ref(x):
    if isinstance(x, str):
        return "${" in x or "$[" in x
    if isinstance(x, list):
        return any(has_ref(v) for v in x)
    if isinstance(x, dict):
        return any(has_ref(v) for v in x.values())
    return False


def result_kind(r):
    n = core.norm_result(r, True)
    if n[0] == "err":
        return "err:" + str(n[1][0])
    return n[0]


class ParamsProp(Prop):
    # set by subclasses when a proved refinement theorem makes the model's output the
    # property's mandated output, so that a disagreement is a concrete failing input
    model_is_spec = True
    check_rerender = False
    # directed families (vlib/gendeep.py) appended to the random stream: name -> cases per quick run
    families = {}

    def cases(self, tier, seed):
        yield from self.base_cases(tier, seed)
        yield from self.directed(tier, seed)

    def directed(self, tier, seed):
        for fam, nq in self.families.items():
            n = nq if tier == "quick" else nq * 20
            for i in range(n):
                r = Rng(seed, self.id + ":" + fam, i)
                if fam in ("wide_mapping", "many_layers", "many_refs", "embedded_chain"):
                    layers = getattr(D, fam)(r, tier)
                else:
                    layers = D.FAMILIES[fam](r)
                yield {"op": "params", "layers": layers, "fam": fam}

    def judge(self, req, impl, reply):
        if req.get("op") != "params":
            return super().judge(req, impl, reply)
        if "bad" in reply:
            return dict(agree=False, spec_ok=None, why="model rejected: %s" % reply["bad"], skip=True)
        if "bad" in impl:
            return dict(agree=False, spec_ok=None, why="harness rejected: %s" % impl["bad"], skip=True)
        model = reply["model"]
        if "crash" in impl:
            return dict(agree=False, spec_ok=None, why="implementation crashed the process (rc=%s)" % impl["crash"], concrete=True, crash=True)
        if "panic" in impl:
            # whole op panicked in the implementation
            mp = core.norm_result(model.get("merged"), False)[0] == "panic" or core.norm_result(model.get("rendered"), False)[0] == "panic"
            return dict(agree=mp, spec_ok=None, why="implementation panicked: %s" % impl["panic"], concrete=not mp, panic=True)
        a1 = core.results_agree(impl.get("merged"), model.get("merged"))
        a2 = core.results_agree(impl.get("rendered"), model.get("rendered"))
        why = []
        if not a1:
            why.append("merged differs")
        if not a2:
            why.append("rendered differs")
        oracle = None
        if self.check_rerender and impl.get("rerender") is not None and "ok" in impl.get("rendered", {}):
            rr = impl["rerender"]
            first = core.strip_flags(core.canon(impl["rendered"]["ok"]))
            if "ok" in rr:
                oracle = core.strip_flags(core.canon(rr["ok"])) == first
            else:
                oracle = False
            if not oracle:
                why.append("re-rendering the rendered parameters changed them")
        agree = a1 and a2
        # The theorems show that the model's outcome is the one the property mandates. A
        # disagreement is a concrete failing input when the implementation returns a different
        # value, or a value where an error is mandated (or the reverse); two different errors
        # only show that the correspondence is broken.
        concrete = oracle is False
        if not agree and self.model_is_spec:
            for part in ("merged", "rendered"):
                ki = core.norm_result(impl.get(part), True)[0]
                km = core.norm_result(model.get(part), False)[0]
                if not core.results_agree(impl.get(part), model.get(part)) and not (ki == "err" and km == "err"):
                    concrete = True
        return dict(agree=agree, spec_ok=None, impl_oracle=oracle, why="; ".join(why), concrete=concrete)

    def tags(self, req, impl, reply):
        if req.get("op") != "params" or not isinstance(impl, dict):
            return []
        t = ["layers=%d" % len(req["layers"])]
        if req.get("fam"):
            t.append("family=" + req["fam"])
        t.append("merged:" + result_kind(impl.get("merged")))
        t.append("rendered:" + result_kind(impl.get("rendered")))
        t.append("refs" if has_ref(req["layers"]) else "reffree")
        return t
