"""C13 — inventory indexes are the exact inverse of per-node lists."""
from .inv_base import InvProp
from ..prng import Rng
from .. import geninv as GI
from .. import genv as G
from .. import geninv2 as GI2
from .. import core
from .c01 import inv, cls

CLAUSES = [
    # three nodes created in non-sorted order sharing one class; a class used by exactly one node
    inv({"classes/shared.yml": dict(cls("shared"), applications=["app_s"]), "classes/only.yml": dict(cls("only"), applications=["app_o"]),
         "nodes/zeta.yml": cls("zeta", ["shared"]), "nodes/alpha.yml": cls("alpha", ["shared", "only"]), "nodes/mid.yml": cls("mid", ["shared"])}),
    # one failing node among passing ones
    inv({"classes/a.yml": cls("a"), "nodes/n1.yml": cls("n1", ["a"]), "nodes/n2.yml": cls("n2", ["a"], boom="${no:such}"),
         "nodes/n3.yml": cls("n3", ["a"])}),
    # no nodes; nodes without classes/apps
    inv({"classes/a.yml": cls("a")}),
    inv({"nodes/n1.yml": cls("n1"), "nodes/n2.yml": cls("n2")}),
    # application removed by negation must not appear in the index
    inv({"classes/a.yml": dict(cls("a"), applications=["x", "y"]), "nodes/n1.yml": dict(cls("n1", ["a"]), applications=["~x"]),
         "nodes/n2.yml": cls("n2", ["a"])}),
]


def check_inverse(impl):
    """Implementation-only oracle: the indexes are the exact inverse of the per-node lists."""
    invr = (impl.get("inventory") or {}).get("ok")
    if invr is None:
        return None
    nodes = impl.get("nodes", {})
    why = []
    if sorted(invr["nodes"]) != sorted(nodes.keys()):
        why.append("inventory nodes != discovered nodes")
    for field, key in (("classes", "classes"), ("apps", "apps")):
        expect = {}
        for n, r in nodes.items():
            if "ok" not in r:
                continue
            for c in r["ok"][key]:
                expect.setdefault(c, set()).add(n)
        got = invr[field]
        if set(got.keys()) != set(expect.keys()):
            why.append("%s index keys differ: %s vs %s" % (field, sorted(got.keys())[:5], sorted(expect.keys())[:5]))
            continue
        for c, ns in got.items():
            if ns != sorted(expect[c]):
                why.append("%s[%s] = %s, expected %s" % (field, c, ns, sorted(expect[c])))
            if not ns:
                why.append("%s[%s] is empty" % (field, c))
    return why


class C13(InvProp):
    id = "C13"
    parts = ("nodes", "inventory")
    model_is_spec = True
    rule = ("op inventory with 0-8 nodes over a pool of <=6 classes / 5 applications with every overlap pattern and any subset "
            "of failing nodes; compared: class index, application index (as maps to lists), node set, failure iff some node "
            "fails and the named node is one that fails; plus the inverse-index relation evaluated on the implementation's own "
            "per-node results. Non-trivial = >=2 nodes; distinct by input hash.")

    def corpus(self):
        return [dict(c) for c in CLAUSES] + super().corpus()

    def cases(self, tier, seed):
        # inventories larger than any chunk size an index builder might use (shared classes across all nodes)
        for j, n in enumerate([520, 700, 1100] if tier == "quick" else [520, 700, 1100, 2100, 4200]):
            c = GI2.scale_inventory(Rng(seed, "C13:scale", j), tier, kind="many_nodes", n_nodes=n, failing=(j % 2 == 1 and n != 700))
            yield c
        for j in range(6 if tier == "quick" else 60):
            yield GI2.scale_inventory(Rng(seed, "C13:scale2", j), tier)
        for j in range(20 if tier == "quick" else 400):
            rr = Rng(seed, "C13:oddnames", j)
            c = GI.gen_inventory(rr, n_classes=rr.range(1, 4), shape="tree", n_nodes=rr.range(2, 5), compose=rr.chance(1, 2))
            nodes = [f for f in c["files"] if f["path"].startswith("nodes/")]
            for f in nodes[: rr.range(1, 2)]:
                base = f["path"].rsplit("/", 1)[1]
                f["path"] = f["path"].rsplit("/", 1)[0] + "/" + rr.choice(["~", "=", "~~", "-"]) + base
            for f in nodes:
                f["content"]["applications"] = [rr.choice(["shared", "=db", "app_a", "x~y", "~gone"]) for _ in range(rr.range(1, 3))]
            c["fam"] = "odd_names"
            yield c
        for j in range(24 if tier == "quick" else 400):
            # a node (or class) file that is readable but cannot be decoded, among healthy ones: the inventory fails and
            # the error names a node that fails
            c = GI2.broken_file_among_good(Rng(seed, "C13:broken", j))
            c.pop("repeat", None)
            yield c
        for j in range(40 if tier == "quick" else 800):
            # the same strings are class names AND application names (a class `nginx` enabling the application `nginx`),
            # on several nodes: the two indexes are built independently of each other
            rr = Rng(seed, "C13:samename", j)
            names = ["nginx", "mon", "db", "web"]
            files = []
            for nm in names:
                apps = [nm] + ([rr.choice(names)] if rr.chance(1, 2) else [])
                files.append({"path": "classes/%s.yml" % nm, "content": {"classes": [], "applications": apps, "parameters": G.enc({nm: 1})}})
            for k in range(rr.range(2, 7)):
                files.append({"path": "nodes/w%d.yml" % k, "content": {"classes": rr.shuffle(list(names))[: rr.range(1, 3)],
                                                                        "applications": [rr.choice(names + ["solo"])] if rr.chance(1, 2) else []}})
            yield {"op": "inventory", "config": {}, "files": files, "fam": "same_names"}
        N = 200 if tier == "quick" else 5000
        for i in range(N):
            r = Rng(seed, "C13", i)
            yield GI.gen_inventory(r, n_classes=r.range(1, 6), shape=r.choice(["tree", "dag"]), n_nodes=r.range(0, 8),
                                   fail_nodes=r.choice([0, 0, 0, 1, 2]), missing=r.choice([0, 0, 1]), node_dirs=r.chance(1, 3),
                                   compose=r.chance(1, 2))
            if i % 5 == 2:
                # includes that resolve (through a reference) to a relative name, from classes in several directories,
                # with enough nodes that one worker renders several of them
                c = GI.gen_inventory(r, n_classes=r.range(1, 4), shape="tree", n_nodes=r.range(0, 3), compose=r.chance(1, 2))
                GI2.relref_groups(r, c, n_nodes=(6, 30))
                c["fam"] = "relref_groups"
                yield c
            if i % 10 == 7:
                c = GI.gen_inventory(r, n_classes=r.range(2, 5), shape=r.choice(["tree", "dag"]), nested=True, relative=70, n_nodes=r.range(2, 6))
                if GI2.add_aliases(r, c):
                    c["fam"] = "aliases"
                    yield c

    def judge(self, req, impl, reply):
        j = super().judge(req, impl, reply)
        if j.get("skip") or not isinstance(impl, dict) or "nodes" not in impl:
            return j
        why = check_inverse(impl)
        if why:
            j["impl_oracle"] = False
            j["concrete"] = True
            j["why"] = (j["why"] + "; " if j["why"] else "") + "; ".join(why[:3])
        if (impl.get("inventory") or {}).get("ok", {}).get("entries_equal_single") is False:
            j["impl_oracle"] = False
            j["concrete"] = True
            j["why"] += "; an inventory entry differs from rendering that node alone"
        # the error of a failing inventory names a node that fails (whatever else it says)
        inv_err = (impl.get("inventory") or {}).get("err")
        failing = [n for n, r in impl.get("nodes", {}).items() if "ok" not in r]
        if isinstance(inv_err, str) and failing and not any(n and n in inv_err for n in failing):
            j["impl_oracle"] = False
            j["concrete"] = True
            j["why"] += "; the inventory error (%s) names none of the failing nodes %s" % (inv_err[:120], failing[:4])
        # fails iff some node fails
        anyfail = any("ok" not in r for r in impl.get("nodes", {}).values())
        invok = "ok" in (impl.get("inventory") or {})
        if anyfail == invok:
            j["impl_oracle"] = False
            j["concrete"] = True
            j["why"] += "; inventory %s although %s" % ("succeeds" if invok else "fails", "a node fails" if anyfail else "no node fails")
        return j

    def nontrivial(self, req, impl, reply):
        return sum(1 for f in req["files"] if f["path"].startswith("nodes/")) >= 2


PROP = C13()
