"""C16 — missing classes fail the node unless configured to be ignored."""
from .inv_base import InvProp
from ..prng import Rng
from .. import geninv as GI
from .. import core
from .. import genv as G
from .c01 import inv, cls

PATS = [None, [".*"], ["^missing"], ["gone$"], ["^gone$"], ["one"], ["^x", "^missing\\.one$"], [], ["^zzz"]]
CLAUSES = []
for flag in (False, True):
    for pats in ([".*"], ["^missing"], ["^other"], []):
        CLAUSES.append(inv({"classes/a.yml": cls("a", ["missing.one"]), "classes/b.yml": cls("b"),
                            "nodes/n.yml": cls("n", ["a", "b"]), "nodes/twin.yml": cls("twin", ["b"])},
                           ignore_class_notfound=flag, patterns=pats))
        CLAUSES.append(inv({"classes/a.yml": cls("a"), "nodes/n.yml": cls("n", ["missing.one", "a", "gone"])},
                           ignore_class_notfound=flag, patterns=pats))
# a reference-bearing include resolving to a RELATIVE name inside a class in a sub-directory: the
# decision is about the absolute name (service.dep), not the text as written (.dep)
for pats in (["^service\\."], ["^\\.", "^other\\."], [".*"], ["dep$"]):
    for flag in (True, False):
        CLAUSES.append(inv({"classes/base.yml": cls("base", dep_class=".dep"), "classes/service/foo.yml": cls("service.foo", ["${dep_class}"]),
                            "nodes/n.yml": cls("n", ["base", "service.foo"])}, ignore_class_notfound=flag, patterns=pats))
# the missing class's name is an existing DIRECTORY below the classes root (no init.yml in it): missing like any other
for flag in (False, True):
    for pats in ([".*"], ["^app$"], ["^other"], None):
        kw = {"patterns": pats} if pats is not None else {}
        CLAUSES.append(inv({"classes/app/other.yml": cls("app.other"), "classes/app/sub/x.yml": cls("app.sub.x"), "classes/a.yml": cls("a", ["app"]),
                            "nodes/n.yml": cls("n", ["a", "app.other"]), "nodes/m.yml": cls("m", ["app.other", "app", "app.nope"]),
                            "nodes/o.yml": cls("o", ["app.sub"])}, ignore_class_notfound=flag, **kw))
# ignoring on, selective patterns, a missing class none of them matches, and Python-reclass options that reclass-rs ignores
for extra in ([["ignore_class_notfound_warning", False]], [["ignore_class_notfound_warning", True]], [["ignore_class_notfound_warning", False], ["allow_none_override", True]]):
    for pats in (["^other"], ["^missing"], [".*"]):
        c_ = inv({"classes/a.yml": cls("a", ["missing.one"]), "classes/b.yml": cls("b"), "nodes/n.yml": cls("n", ["a", "b"]), "nodes/m.yml": cls("m", ["gone", "b"])})
        c_["config"] = {"file_options": [["ignore_class_notfound", True], ["ignore_class_notfound_regexp", pats]] + extra, "ignore_class_notfound": True, "patterns": pats}
        CLAUSES.append(c_)
# an existing class whose name matches the pattern is never skipped
CLAUSES.append(inv({"classes/missing/one.yml": cls("missing.one"), "nodes/n.yml": cls("n", ["missing.one"])},
                   ignore_class_notfound=True, patterns=["^missing"]))
CLAUSES.append(inv({"classes/a.yml": cls("a"), "nodes/n.yml": cls("n", ["a"])}, ignore_class_notfound=True, patterns=["("]))


UNI_NAMES = ["D.X1", "Plain.Name", "ZONE.ab", "TMP.scratch", "dienste.größe", "übergang.alt", "äb", "naïve.café", "zone.東京", "d.x1", "plain.name", "Ünï.ÇØdé", "a.b", "日本"]
UNI_PATS = ["(?i)^legacy\\..*", "^tmp\\..*", "^d\\.x1$", "(?x)^plain \\. name$ # comment", "^zone\\.ab$", "(?i)nomatch", "^dienste\\.\\w+$", "(?i)^ÜBERGANG\\.", "^.{2}$", "^.{3}$", "^[^.]+\\.[^.]+$", "\\w+\\.café$", "^zone\\...$", "^zone\\.....$", "\\d$", "^\\w+$",
            "^d\\.gr..e$", "größe$", "(?i)ünï", "^\\S+$", "\\bcafé\\b", "^..$", "^....?$", "東", "^[a-z.]+$", "^[^a-z]+$"]


def uni_case(r):
    """One node, one missing class with a (mostly) non-ASCII name, patterns using constructs the model does not cover;
    the expected outcome is computed with Python's re (Unicode-aware like the regex crate's default)."""
    name = r.choice(UNI_NAMES)
    pats = [r.choice(UNI_PATS) for _ in range(r.range(1, 3))]
    c = inv({"classes/a.yml": cls("a"), "nodes/n.yml": cls("n", ["a", name])}, ignore_class_notfound=True, patterns=pats)
    c["py_regex"] = {"missing": name, "patterns": pats}
    return c


class C16(InvProp):
    id = "C16"
    parts = ("nodes",)
    rule = ("op inventory with missing includes at every position of the include graph x ignore flag x pattern lists from a "
            "modelled regex sub-language (.*, ^p, s$, ^e$, infix, empty list, several); compared per node: render or "
            "classNotFound naming the class; twin: the same inventory with the ignored includes removed renders the same "
            "parameters/applications (implementation-only). Non-trivial = some include names a class with no file; distinct "
            "by input hash.")

    def corpus(self):
        return [dict(c) for c in CLAUSES] + super().corpus()

    def judge(self, req, impl, reply):
        pr = req.get("py_regex")
        if pr and isinstance(impl, dict) and "nodes" in impl:
            import re as _re
            expect_ignored = any(_re.search(q, pr["missing"]) for q in pr["patterns"])
            got = core.norm_result(impl["nodes"].get("n"), True)
            ok = (got[0] == "ok") if expect_ignored else (got[0] == "err" and got[1][0] == "classNotFound" and got[1][1] == pr["missing"])
            why = "" if ok else "missing class %r with patterns %s: expected %s, the node %s" % (
                pr["missing"], pr["patterns"], "to be ignored (a pattern matches)" if expect_ignored else "a class-not-found error naming it (no pattern matches)",
                "renders" if got[0] == "ok" else "fails with %s" % (got[1],))
            return dict(agree=True, spec_ok=None, impl_oracle=(None if ok else False), concrete=not ok, why=why)
        return super().judge(req, impl, reply)

    def cases(self, tier, seed):
        for j in range(120 if tier == "quick" else 3000):
            yield uni_case(Rng(seed, "C16:uni", j))
        N = 250 if tier == "quick" else 6000
        for i in range(N):
            r = Rng(seed, "C16", i)
            cfg = {"ignore_class_notfound": r.chance(2, 3)}
            p = r.choice(PATS)
            if p is not None:
                cfg["patterns"] = p
            c = GI.gen_inventory(r, n_classes=r.range(1, 5), shape=r.choice(["tree", "dag", "chain"]), n_nodes=r.range(1, 2),
                                 missing=2, nested=r.chance(1, 3), relative=r.choice([0, 40]), cfg=cfg)
            if i % 5 == 2:
                # the missing names exist as directories (with unrelated classes inside, no init.yml)
                have = {f["path"] for f in c["files"]}
                for pth, nm in (("classes/gone/leaf.yml", "gone.leaf"), ("classes/missing/one/leaf.yml", "missing.one.leaf"), ("classes/missing_two/leaf.yaml", "missing_two.leaf")):
                    if pth not in have and r.chance(2, 3):
                        c["files"].append({"path": pth, "content": {"classes": [], "parameters": G.enc({"leaf": nm})}})
                c["fam"] = "missing_is_directory"
            if i % 3 == 0:
                # missing class named through a reference that resolves to a relative spelling
                cfg2 = dict(cfg)
                cfg2["patterns"] = r.choice([["^d1\\."], ["^\\."], ["gone$"], ["^d1\\.gone$"], [".*"], ["^gone"]])
                yield inv({"classes/base.yml": cls("base", relname=r.choice([".gone", "..gone", "gone", ".sub.gone"])),
                           "classes/d1/user.yml": cls("d1.user", ["${relname}"]), "classes/ok.yml": cls("ok"),
                           "nodes/n.yml": cls("n", ["base", "d1.user", "ok"])}, **cfg2)
            yield c
            if i % 4 == 3:
                # the same settings read from a config file, keys written in every order
                import copy
                c3 = copy.deepcopy(c)
                opts = [["ignore_class_notfound", c3["config"].get("ignore_class_notfound", False)]]
                if "patterns" in c3["config"]:
                    opts.append(["ignore_class_notfound_regexp", c3["config"]["patterns"]])
                opts.append(["compose_node_name", c3["config"].get("compose_node_name", False)])
                if r.chance(1, 2):
                    opts.append(["unknown_option", "x"])
                for _ in range(r.range(0, 3)):
                    # options of Python reclass that reclass-rs does not implement: accepted and ignored, whatever their value
                    opts.append(r.choice([["ignore_class_notfound_warning", False], ["ignore_class_notfound_warning", True], ["allow_none_override", True],
                                          ["ignore_overwritten_missing_references", False], ["allow_scalar_over_dict", True], ["pretty_print", True],
                                          ["output", "json"], ["storage_type", "yaml_fs"], ["ignore_class_regexp", [".*"]], ["group_errors", False]]))
                c3["config"]["file_options"] = r.shuffle(opts)
                c3["fam"] = "config_file"
                yield c3
            if i % 4 == 1:
                # the pattern list is replaced on the live instance (also by a list that does not compile, which must
                # leave the previous one in force); behaviour must follow the reported settings
                import copy
                c2 = copy.deepcopy(c)
                c2["config"]["ignore_class_notfound"] = True
                pats = [q for q in PATS if q is not None]
                c2["lifecycle"] = r.choice([[{"patterns": r.choice(pats)}], [{"patterns": ["("]}], [{"patterns": r.choice(pats)}, {"render_inventory": 1}, {"patterns": r.choice(pats)}],
                                            [{"patterns": r.choice(pats)}, {"patterns": ["[a"]}]])
                yield c2
            # twin with every missing include removed: compared in post_check
            if cfg["ignore_class_notfound"] and p in (None, [".*"]):
                t = {"op": "inventory", "config": dict(c["config"]), "files": [], "twin_of": core.case_hash(c)}
                names = set()
                for f in c["files"]:
                    if f["path"].startswith("classes/"):
                        names.add(f["path"][len("classes/"):].rsplit(".", 1)[0].replace("/", ".").replace(".init", ""))
                for f in c["files"]:
                    f2 = {"path": f["path"], "content": dict(f["content"])}
                    f2["content"]["classes"] = [x for x in f["content"].get("classes", []) if x not in ("missing.one", "gone", "missing_two", ".relmissing")]
                    t["files"].append(f2)
                yield t

    def post_check(self, results):
        out = []
        byhash = {}
        for (req, impl, reply) in results:
            if "twin_of" not in req and req.get("op") == "inventory":
                byhash[core.case_hash(req)] = impl
        for (req, impl, reply) in results:
            t = req.get("twin_of")
            if not t or t not in byhash or not isinstance(impl, dict):
                continue
            o = byhash[t]
            for n, r in (impl.get("nodes") or {}).items():
                ro = (o.get("nodes") or {}).get(n)
                if ro is None:
                    continue
                a, b = core.norm_result(r, True), core.norm_result(ro, True)
                if a[0] == "ok" and b[0] == "ok":
                    if a[1]["params"] != b[1]["params"] or a[1]["apps"] != b[1]["apps"]:
                        out.append((req, impl, reply, dict(agree=True, spec_ok=None, impl_oracle=False, concrete=True,
                                                           why="node %s renders differently with the ignored include removed (twin %s)" % (n, t))))
                        break
                elif a[0] != b[0]:
                    out.append((req, impl, reply, dict(agree=True, spec_ok=None, impl_oracle=False, concrete=True,
                                                       why="node %s: %s with ignored includes, %s without (twin %s)" % (n, b[0], a[0], t))))
                    break
        return out

    def nontrivial(self, req, impl, reply):
        s = str([f.get("content", {}).get("classes") for f in req["files"]])
        return "missing" in s or "gone" in s


PROP = C16()
