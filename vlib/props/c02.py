"""C02 — layered parameters deep-merge."""
import itertools
from .params_base import ParamsProp, has_ref
from ..prng import Rng
from .. import genv as G

SHAPES = [None, True, G.I(1), "s", [G.I(1)], [], G.M([["a", G.I(1)]]), G.M([]), G.M([["a", [G.I(2)]]]), G.M([["a", G.M([["b", "x"]])]])]


class C02(ParamsProp):
    id = "C02"
    rule = ("op params on reference-free layer stacks: Mapping::merge fold + render_with_self vs model; compared: "
            "merged tree (incl. layer lists and flags), rendered tree, error class and named parameter. Exhaustive: all "
            "stacks of <=3 layers over 10 value shapes under one key and under a nested key; random: 2-6 layers, depth<=3, "
            "markers at every level. Non-trivial = some key defined by >=2 layers; distinct by input hash.")
    exhaustive = {"quick": "all stacks of <=3 layers over 10 shapes at depth 1; all pairs at depth 2",
                  "thorough": "all stacks of <=4 layers over 10 shapes at depth 1, <=3 at depth 2"}

    families = {"deep_ref_layers": 60, "repeated_layers": 80, "wide_mapping": 20, "many_layers": 40, "empty_const": 40, "null_const": 30, "odd_keys": 80, "dup_in_one_mapping": 100, "same_value_layers": 150, "wide_layer_lookup": 80, "dangling_then_reset": 40}

    def base_cases(self, tier, seed):
        L1 = 3 if tier == "quick" else 4
        L2 = 2 if tier == "quick" else 3
        for n in range(1, L1 + 1):
            for t in itertools.product(SHAPES, repeat=n):
                yield {"op": "params", "layers": [G.M([["k", v]]) for v in t]}
        for n in range(1, L2 + 1):
            for t in itertools.product(SHAPES, repeat=n):
                yield {"op": "params", "layers": [G.M([["p", G.M([["k", v]])]]) for v in t]}
        N = 1500 if tier == "quick" else 40000
        for i in range(N):
            r = Rng(seed, "C02", i)
            nl = r.range(2, 6)
            pm = r.choice([0, 0, 10, 25])
            tops = G.TOPS[: r.range(1, 3)]
            layers = [G.layer(r, tops, r.range(1, 3), pm, p_present=80, strs=["x", "y", "", "1"]) for _ in range(nl)]
            yield {"op": "params", "layers": layers}

    def nontrivial(self, req, impl, reply):
        seen = {}
        for L in req["layers"]:
            for k, _ in L["m"]:
                kk = repr(G.strip_marker(k))
                seen[kk] = seen.get(kk, 0) + 1
        return any(v >= 2 for v in seen.values())


PROP = C02()
