"""C14 — files map to class and node names one-to-one, collisions rejected."""
from .inv_base import InvProp
from ..prng import Rng
from .. import geninv as GI
from .. import geninv2 as GI2
from .. import genv as G
from .. import core


def f(path):
    return {"path": path, "content": {"parameters": G.M([["marker", path]])}}


def tree(paths, compose=False, extra=()):
    return {"op": "inventory", "config": {"compose_node_name": compose}, "files": [f(p) for p in paths] + list(extra)}


CLAUSES = [
    tree(["classes/a.yml", "classes/d/b.yaml", "classes/d/e/c.yml", "nodes/n.yml"]),
    tree(["classes/x/init.yml", "classes/x/y/init.yaml", "classes/x/z.yml", "nodes/n.yml"]),
    tree(["classes/init.yml", "nodes/n.yml"]),
    tree(["classes/foo.bar.yml", "classes/foo/baz.yml", "nodes/n.yml"]),
    tree(["classes/foo.bar.yml", "classes/foo/bar.yml", "nodes/n.yml"]),          # collision via dot
    tree(["classes/a.yml", "classes/a.yaml", "nodes/n.yml"]),                      # collision via extension
    tree(["classes/a/init.yml", "classes/a.yml", "nodes/n.yml"]),                  # collision via init
    tree(["nodes/n.yml", "nodes/n.yaml"]),
    tree(["nodes/g/n.yml", "nodes/h/n.yml"], compose=False),                       # basename collision
    tree(["nodes/g/n.yml", "nodes/h/n.yml", "nodes/_u/m.yml", "nodes/_u/v/k.yml", "nodes/g/_w/q.yml"], compose=True),
    tree(["nodes/_u/n.yml", "nodes/n.yml"], compose=True),                         # collision below _
    tree(["classes/.h.yml", "classes/d/.h.yml", "classes/..yml", "nodes/n.yml"]),
    tree(["classes/a.yml", "nodes/n.yml"], extra=[{"path": "classes/README", "raw": "x"}, {"path": "classes/b.yml.bak", "raw": "x"},
                                                  {"path": "classes/.yml", "raw": "x: 1"}, {"path": "classes/c.YML", "raw": "x: 1"}]),
    tree(["classes/real/a.yml", "nodes/n.yml"], extra=[{"path": "classes/lnk", "kind": "symlink", "target": "real"}]),
    tree(["classes/a.yml", "nodes/n.yml"], extra=[{"path": "classes/b.yml", "kind": "symlink", "target": "a.yml"}]),
    tree(["classes/a.yml", "nodes/n.yml"], extra=[{"path": "classes/x.yml", "kind": "dir"}]),
    tree(["classes/x.yaml", "nodes/n.yml"], extra=[{"path": "classes/x.yml", "kind": "dir"}]),
    tree(["classes/a/b/c/d/e.yml", "nodes/g/h/i/n.yml"], compose=True),
    # one file, two discovered names (symlinked directory / symlinked file): a node that includes BOTH names loads the
    # file for each of them (the second load re-applies its values after the class in between; the file's relative
    # include resolves against the directory of the name it was included by)
    tree(["classes/real/a.yml", "classes/mid.yml"], extra=[
        {"path": "classes/lnk", "kind": "symlink", "target": "real"},
        {"path": "nodes/n1.yml", "content": {"classes": ["real.a", "mid", "lnk.a"]}}, {"path": "nodes/n2.yml", "content": {"classes": ["lnk.a", "mid", "real.a"]}},
        {"path": "nodes/n3.yml", "content": {"classes": ["lnk.a"]}}, {"path": "nodes/n4.yml", "content": {"classes": ["real.a", "lnk.a", "mid"]}}]),
    tree(["classes/a/y.yml", "classes/b/y.yml", "classes/mid.yml"], extra=[
        {"path": "classes/a/x.yml", "content": {"classes": [".y"], "parameters": G.M([["marker", "classes/a/x.yml"], ["x", "x"]])}},
        {"path": "classes/b/x.yml", "kind": "symlink", "target": "../a/x.yml"},
        {"path": "nodes/n1.yml", "content": {"classes": ["a.x", "b.x"]}}, {"path": "nodes/n2.yml", "content": {"classes": ["b.x", "mid", "a.x"]}},
        {"path": "nodes/n3.yml", "content": {"classes": ["b.x"]}}]),
    tree(["classes/a.yml", "classes/mid.yml"], extra=[{"path": "classes/b.yml", "kind": "symlink", "target": "a.yml"},
        {"path": "nodes/n1.yml", "content": {"classes": ["a", "mid", "b"]}}, {"path": "nodes/n2.yml", "content": {"classes": ["b", "mid", "a", "mid", "b"]}}]),
]


def add_probe_nodes(case):
    """For every class file add a node including... (done by the model comparison: every node renders)."""
    return case


class C14(InvProp):
    id = "C14"
    parts = ("discover", "nodes")
    rule = ("op inventory on real directory trees (depth<=4, both extensions, init files, dots and leading dots in names, "
            "leading underscores, stray files, symlinked directories and files, directories named *.yml) under both settings "
            "of node-name composition; every class file records its own path as a parameter and one probe node per class "
            "name includes it, so 'including a discovered name loads the defining file' is observable; compared: name->path/"
            "location maps for nodes and classes, collision error + name + both files, per-node renders. Non-trivial = >=3 "
            "yaml files at >=2 directory levels; distinct by input hash.")

    def judge(self, req, impl, reply):
        if req.get("fam") == "linked_inventory" and isinstance(impl, dict):
            # which path the uri spells for an inventory behind a symlink is not C14's subject (it is the textual one)
            import copy
            impl, reply = copy.deepcopy(impl), copy.deepcopy(reply)
            for side in (impl, (reply or {}).get("model") or {}):
                for v in (side.get("nodes") or {}).values():
                    if isinstance(v, dict) and "ok" in v and "meta" in v["ok"]:
                        v["ok"]["meta"]["uri"] = "<masked>"
        return super().judge(req, impl, reply)

    def corpus(self):
        return [dict(c) for c in CLAUSES] + super().corpus()

    def cases(self, tier, seed):
        for j in range(30 if tier == 'quick' else 600):
            yield GI2.linked_inventory(Rng(seed, 'C14:linked', j))
        for j in range(16 if tier == 'quick' else 300):
            rr = Rng(seed, 'C14:special', j)
            cc = GI.gen_inventory(rr, n_classes=rr.range(1, 4), n_nodes=rr.range(1, 3), nested=True, node_dirs=True, compose=rr.chance(1, 2))
            if GI2.special_files(rr, cc):
                yield cc
        for j in range(8 if tier == 'quick' else 100):
            rr = Rng(seed, 'C14:scale', j)
            yield GI2.scale_inventory(rr, tier, kind=rr.choice(['long_names', 'deep_dirs']))
        for j in range(40 if tier == 'quick' else 800):
            # class files reachable under a second name through a symlink, nodes including the alias alone or next to the
            # real name in either order
            rr = Rng(seed, 'C14:alias', j)
            ca = GI.gen_inventory(rr, n_classes=rr.range(2, 6), shape=rr.choice(["tree", "dag", "chain"]), nested=True,
                                  relative=rr.choice([0, 60, 100]), n_nodes=rr.range(1, 3))
            if GI2.add_aliases(rr, ca):
                ca["fam"] = "aliases"
                yield ca
        N = 300 if tier == "quick" else 8000
        for i in range(N):
            r = Rng(seed, "C14", i)
            files = GI.gen_tree(r, "classes", r.range(1, 7)) + GI.gen_tree(r, "nodes", r.range(1, 5))
            # probe nodes: include each plausible class name (not starting with a dot)
            names = set()
            for fl in files:
                if fl["path"].startswith("classes/") and "content" in fl:
                    p = fl["path"][len("classes/"):].rsplit(".", 1)[0]
                    segs = p.split("/")
                    if segs[-1] == "init":
                        segs = segs[:-1]
                    nm = ".".join(segs)
                    if nm and not nm.startswith("."):
                        names.add(nm)
            for j, nm in enumerate(sorted(names)[:4]):
                files.append({"path": "nodes/probe%d.yml" % j, "content": {"classes": [nm], "parameters": G.M([["probe", nm]])}})
            yield {"op": "inventory", "config": {"compose_node_name": r.chance(1, 2)}, "files": files}

    def nontrivial(self, req, impl, reply):
        ys = [f["path"] for f in req["files"] if f["path"].endswith((".yml", ".yaml"))]
        return len(ys) >= 3 and any(p.count("/") >= 2 for p in ys)


PROP = C14()
