"""C19 — Python sees native objects equal to the rendered data."""
import math
from ..runner import Prop
from ..prng import Rng
from .. import core
from .. import genv as G
from .. import geninv as GI


def node_file(params, classes=(), name="n"):
    return {"path": "nodes/%s.yml" % name, "content": {"classes": list(classes), "parameters": G.enc(params)}}


def case(files, **cfg):
    return {"op": "py_inventory", "config": cfg, "files": files}


RICH = {"s": "text", "e": "", "t": True, "f": False, "z": None, "i": 1, "neg": -7, "big": 18446744073709551615,
        "min": -9223372036854775808, "p53": 9007199254740993, "fl": 1.5, "l": [1, "a", True, None, 2.5, [0], {"k": "v"}],
        "m": {"b": 1, "a": {"deep": [1, 2]}}, "ref": "${m:a}", "emb": "x${i}y"}
CLAUSES = [
    case([node_file({k: v for k, v in RICH.items() if k not in (1, True)})]),
    case([node_file({"m": {1: "one", "two": 2, None: "null key", False: "false key"}, "order": {"z": 1, "a": 2, "m": 3}})]),
    case([node_file({"ik": {0: "a", -9223372036854775808: "b", 9223372036854775807: "c", 9223372036854775808: "d", 18446744073709551615: "e"},
                     "l": [{18446744073709551615: "in list"}], "v": 18446744073709551615})]),
    # known finding D13: key collision under Python equality
    case([{"path": "nodes/n.yml", "content": {"parameters": G.M([["m", G.M([[G.I(1), "a"], [True, "b"], [G.I(0), "c"], ["k", "d"], [False, "e"]])]])}}]),
    # known finding D17: a layer list left in the rendered data reaches unreachable!() in as_py_obj
    case([node_file({"a": {"x": True}, "===a": {"x": False}})]),
    # equal mappings written in different key orders (anything memoised by value must keep each one's own order)
    case([node_file({"blue": {"cpu": 2, "memory": "4Gi", "n": {"x": 1, "y": 2}}, "green": {"memory": "4Gi", "cpu": 2, "n": {"y": 2, "x": 1}},
                     "l": [{"a": 1, "b": 2}, {"b": 2, "a": 1}], "near": [{"a": 1}, {"a": 1.0}, {"a": True}, {"a": "1"}]})]),
    # node names ending in a YAML extension, class and application names starting with a marker character
    case([{"path": "nodes/backup.yaml.yml", "content": {"parameters": G.enc({"who": "backup.yaml"})}},
          {"path": "nodes/backup.yml", "content": {"parameters": G.enc({"who": "backup"})}},
          {"path": "nodes/legacy.yml.yaml", "content": {"classes": ["=pinned"], "applications": ["=db", "web", "x~y"]}},
          {"path": "classes/=pinned.yml", "content": {"applications": ["~none", "=db2"], "parameters": G.enc({"p": 1})}}]),
    case([{"path": "nodes/formats/yml.yml", "content": {"applications": ["=a", "a"]}}, {"path": "nodes/formats/yaml.yaml", "content": {}},
          {"path": "nodes/formats.yml", "content": {"applications": ["a"]}}], compose_node_name=True),
    # failures surface as ValueError
    case([node_file({"boom": "${no:such}"})]),
    case([node_file({}, classes=["missing"])]),
    case([{"path": "nodes/n.yml", "raw": "a: [unclosed"}]),
    case([node_file({}, name="n"), {"path": "nodes/n.yaml", "content": {}}]),
    case([node_file({"a": 1})], patterns=["("], ignore_class_notfound=True),
]
CLAUSES[0]["files"][0]["content"]["parameters"]["m"].append(["nan", {"f": [".nan", ""]}])
CLAUSES[0]["files"][0]["content"]["parameters"]["m"].append(["inf", {"f": ["-.inf", ""]}])


def norm_float(t):
    t = t.strip().lower().replace(".nan", "nan").replace(".inf", "inf")
    try:
        return repr(float(t))
    except ValueError:
        return t


def norm_py(x):
    if isinstance(x, dict):
        if "float" in x:
            return {"float": norm_float(x["float"])}
        if "dict" in x:
            return {"dict": [[norm_py(k), norm_py(v)] for k, v in x["dict"]]}
        return {k: norm_py(v) for k, v in x.items()}
    if isinstance(x, list):
        return [norm_py(v) for v in x]
    return x


def rust_to_py(x):
    """The rendered data as the Rust side reports it, converted entry by entry (no key
    identification): what 'native objects equal to the rendered values' means."""
    if x is None or isinstance(x, str):
        return x
    if isinstance(x, bool):
        return {"bool": x}
    if isinstance(x, list):
        return [rust_to_py(v) for v in x]
    if isinstance(x, dict):
        if "i" in x:
            return {"int": x["i"]}
        if "f" in x:
            return {"float": x["f"][0]}
        if "s" in x:
            return x["s"]
        if "m" in x:
            return {"dict": [[rust_to_py(k), rust_to_py(v)] for k, v in x["m"]]}
    return {"other": str(x)}


def py_keys_collide(x):
    """Does some mapping have two keys equal under Python equality (1/True, 0/False)?"""
    if isinstance(x, dict) and "m" in x:
        ks = []
        for k, v in x["m"]:
            kk = k
            if isinstance(k, bool):
                kk = ("num", int(k))
            elif isinstance(k, dict) and "i" in k:
                kk = ("num", int(k["i"]))
            elif isinstance(k, str):
                kk = ("s", G.strip_marker(k))
            ks.append(kk)
            if py_keys_collide(v):
                return True
        return len(set(map(repr, ks))) < len(ks)
    if isinstance(x, list):
        return any(py_keys_collide(v) for v in x)
    return False


class C19(Prop):
    id = "C19"
    serial = True
    rule = ("op py_inventory: inventories rendered through the Python API in an embedded CPython (Config.from_dict, "
            "Reclass.from_config, nodeinfo, inventory, as_dict); every object is dumped in a typed canonical form (bool before "
            "int, int as decimal text, dict order kept) and compared with the model's conversion of the rendered parameters; "
            "as_dict() views must contain the same data as the attribute views; failures must be ValueError carrying the Rust "
            "message. Value trees cover all kinds, key kinds, nesting, 64-bit extremes, floats incl. nan/inf. Non-trivial = a "
            "node renders with >=5 parameters or fails; distinct by input hash.")
    explanation = ("PyO3 and CPython are trusted; what is proved is the conversion model (bool never an int, integers exact, "
                   "order kept, no layer list reaches Python for closed values); the correspondence runs the real conversion.")

    def corpus(self):
        return [dict(c) for c in CLAUSES] + super().corpus()

    def cases(self, tier, seed):
        N = 150 if tier == "quick" else 4000
        for i in range(N):
            r = Rng(seed, "C19", i)
            if i % 3 == 0:
                c = GI.gen_inventory(r, n_classes=r.range(1, 4), n_nodes=r.range(1, 3), fail_nodes=r.choice([0, 1]), missing=r.choice([0, 1]),
                                     param_refs=50, compose=r.chance(1, 2), node_dirs=r.chance(1, 2))
                c["op"] = "py_inventory"
                yield c
            else:
                layers = G.shaped_stack(r, r.range(2, 5), 1, r.range(1, 3), 0, p_stray=0)
                # non-string keys of every kind and magnitude somewhere in the tree
                if r.chance(1, 2) and layers[0]["m"]:
                    e = r.choice(layers[0]["m"])
                    ks = [G.key(r, p_odd=100) for _ in range(r.range(1, 3))]
                    seen = set()
                    e[1] = {"m": [[k, G.scalar(r)] for k in ks if not (repr(k) in seen or seen.add(repr(k)))]}
                G.add_refs(r, layers, r.range(0, 3), p_cyclic=0, p_dangling=3)
                params = layers[0]
                if i % 4 == 1:
                    # structurally equal values at several places, mappings in permuted key order, and
                    # near-equal scalars (1, 1.0, true, "1"): conversion must treat every occurrence on its own
                    maps = [e for e in params["m"] if G.is_map(e[1]) and len(e[1]["m"]) >= 2]
                    if not maps or r.chance(1, 2):
                        nent = r.choice([3, 4, 5, 8, 17, 40])
                        params["m"].append(["tw0", {"m": [["p", G.I(1)], ["q", "x"], ["r", [G.I(1)]]] + [["e%02d" % z, G.I(z)] for z in range(nent - 3)]}])
                        maps = [params["m"][-1]]
                    src = r.choice(maps)[1]
                    for k in range(r.range(1, 3)):
                        perm = {"m": r.shuffle([list(e) for e in src["m"]])}
                        if r.chance(1, 3) and perm["m"]:
                            e = r.choice(perm["m"])
                            e[1] = r.choice([{"f": ["1.0", "1.0"]}, True, "1", G.I(1)]) if e[1] in (G.I(1), True, "1") else e[1]
                        where = r.choice(["top", "list", "nested"])
                        if where == "top":
                            params["m"].append(["twin%d" % k, perm])
                        elif where == "list":
                            params["m"].append(["twl%d" % k, [src, perm, "x"]])
                        else:
                            params["m"].append(["twn%d" % k, {"m": [["in", perm], ["orig", src]]}])
                yield {"op": "py_inventory", "config": {}, "files": [{"path": "nodes/n.yml", "content": {"parameters": params}}]}

    def judge(self, req, impl, reply):
        if "bad" in reply:
            return dict(agree=False, spec_ok=None, why="model rejected: %s" % reply["bad"], skip=True)
        if not isinstance(impl, dict) or "py" not in impl:
            if isinstance(impl, dict) and ("panic" in impl or "crash" in impl):
                return dict(agree=False, spec_ok=None, why="implementation panicked/crashed: %s" % str(impl)[:300], concrete=True)
            return dict(agree=False, spec_ok=None, why="harness rejected: %s" % str(impl)[:300], skip=True)
        py, rust, model = impl["py"], impl["rust"], reply["model"]
        why, oracle = [], None
        def bad(msg):
            nonlocal oracle
            oracle = False
            why.append(msg)
        # construction entry points aimed at missing things: a failure must be a ValueError (never FileNotFoundError,
        # OSError, PanicException, ...)
        for label, res in py.get("ctor_probes", []):
            if isinstance(res, dict) and res.get("exc") != "ValueError":
                bad("construction probe %s: failure surfaces as %s (%s), not ValueError" % (label, res.get("exc"), str(res.get("msg"))[:80]))
        # construction
        if "ctor" in py or "ctor" in model:
            if ("ctor" in py) != ("ctor" in model):
                why.append("construction: python %s, model %s" % (py.get("ctor"), model.get("ctor")))
            elif py["ctor"].get("exc") != "ValueError":
                bad("construction failure surfaces as %s, not ValueError" % py["ctor"].get("exc"))
            return dict(agree=not [w for w in why if w.startswith("construction:")], spec_ok=None, impl_oracle=oracle, why="; ".join(why), concrete=oracle is False)
        for n, pr in py.get("nodes", {}).items():
            mr = model.get("nodes", {}).get(n)
            if mr is None:
                why.append("node %s unknown to the model" % n)
                continue
            if "exc" in pr:
                if pr["exc"] != "ValueError":
                    bad("node %s: failure surfaces as %s (%s), not ValueError" % (n, pr["exc"], pr["msg"][:80]))
                rmsg = (rust.get("nodes", {}).get(n) or {}).get("err")
                if rmsg is not None and rmsg.replace("<ROOT>", "") not in pr["msg"].replace("<ROOT>", ""):
                    bad("node %s: ValueError does not carry the underlying message" % n)
                if "err" not in mr:
                    why.append("node %s fails in python, model renders it" % n)
                continue
            if "err" in mr:
                why.append("node %s renders in python, model fails" % n)
                continue
            po, mo = pr["ok"], mr["ok"]
            for f in ("parameters", "classes", "applications", "meta"):
                if norm_py(po[f]) != norm_py(mo[f]):
                    why.append("node %s: %s differ" % (n, f))
            if not po["as_dict_same"]:
                bad("node %s: as_dict() differs from the attribute views" % n)
            rn = (rust.get("nodes", {}).get(n) or {}).get("ok")
            if rn is not None and norm_py(rust_to_py(rn["params"])) != norm_py(po["parameters"]):
                bad("node %s: the Python parameters are not equal to the rendered data (entry lost or changed in conversion)" % n)
            if po["as_dict_keys"] != ["__reclass__", "applications", "classes", "environment", "exports", "parameters"]:
                bad("node %s: as_dict() keys %s" % (n, po["as_dict_keys"]))
        pi, mi = py.get("inventory"), model.get("inventory")
        if pi is not None and mi is not None:
            if "exc" in pi:
                if pi["exc"] != "ValueError":
                    bad("inventory failure surfaces as %s, not ValueError" % pi["exc"])
                # ... carrying the underlying message: the reason some failing node gives when rendered alone
                reasons = [(rust.get("nodes", {}).get(n) or {}).get("err") for n in rust.get("nodes", {})]
                reasons = [m.replace("<ROOT>", "") for m in reasons if m]
                if reasons and not any(m in pi["msg"].replace("<ROOT>", "") for m in reasons):
                    bad("inventory failure (%s) does not carry the underlying message of any failing node (%s)" % (pi["msg"][:120], reasons[0][:80]))
                if "err" not in mi:
                    why.append("inventory fails in python, model renders it")
            elif "err" in mi:
                why.append("inventory renders in python, model fails")
            else:
                a = {k: v for k, v in pi["ok"]["classes"]["dict"]}
                if a != mi["ok"]["classes"] or {k: v for k, v in pi["ok"]["applications"]["dict"]} != mi["ok"]["applications"]:
                    why.append("inventory indexes differ")
                if not pi["ok"]["as_dict_same"]:
                    bad("inventory as_dict() differs from the attribute views")
        u = py.get("unknown")
        if not (isinstance(u, dict) and u.get("exc") == "ValueError"):
            bad("unknown node: %s" % u)
        agree = not [w for w in why if ("differ" in w and "as_dict" not in w) or "model" in w]
        return dict(agree=agree, spec_ok=None, impl_oracle=oracle, why="; ".join(why), concrete=oracle is False)

    def nontrivial(self, req, impl, reply):
        if not isinstance(impl, dict) or "py" not in impl:
            return False
        for n, pr in impl["py"].get("nodes", {}).items():
            if "exc" in pr or len(pr["ok"]["parameters"]["dict"]) >= 5:
                return True
        return "ctor" in impl["py"]

    def tags(self, req, impl, reply):
        if not isinstance(impl, dict) or "py" not in impl:
            return []
        t = []
        for n, pr in impl["py"].get("nodes", {}).items():
            t.append("node:" + ("exc:" + pr["exc"] if "exc" in pr else "ok"))
        if "ctor" in impl["py"]:
            t.append("ctor:exc:" + impl["py"]["ctor"]["exc"])
        return t

    def matches_known(self, finding, req, impl, reply):
        if finding.get("id") == "D17":
            def keys(x):
                if isinstance(x, dict) and "m" in x:
                    for k, v in x["m"]:
                        yield k
                        yield from keys(v)
                elif isinstance(x, list):
                    for v in x:
                        yield from keys(v)
            def split(k):
                n = 0
                while n < len(k) and k[n] in "=~":
                    n += 1
                return n, k[n:]
            ks = [split(k) for f in req["files"] for k in keys((f.get("content") or {}).get("parameters")) if isinstance(k, str)]
            names = [b for _, b in ks]
            panics = "PanicException" in str(((impl or {}).get("py") or {}).get("nodes"))
            model_vl = "pyVl" in str(((reply or {}).get("model") or {}).get("nodes"))
            return panics and model_vl and any(n >= 3 and names.count(b) >= 2 for n, b in ks)
        if finding.get("id") != "D13":
            return False
        return any(py_keys_collide(f.get("content", {}).get("parameters")) for f in req["files"])


PROP = C19()
