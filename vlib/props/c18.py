"""C18 — node metadata matches how the node was discovered."""
from .inv_base import InvProp
from ..prng import Rng
from .. import genv as G
from .. import geninv2 as GI2
from .. import core

REFS = G.enc({"full": "${_reclass_:name:full}", "short": "${_reclass_:name:short}", "path": "${_reclass_:name:path}",
              "parts": "${_reclass_:name:parts}", "env": "${_reclass_:environment}", "emb": "n=${_reclass_:name:full}/${_reclass_:name:path}"})


def node(path, classes=()):
    return {"path": path, "content": {"classes": list(classes), "parameters": REFS}}


def case(paths, compose, dots, extra=()):
    cfg = {"compose_node_name": compose}
    if dots:
        cfg["literal_dots"] = True
    return {"op": "inventory", "config": cfg, "files": [node(p) for p in paths] + list(extra)}


PATHS = ["nodes/n.yml", "nodes/g/m.yml", "nodes/g/h/k.yaml", "nodes/_u/p.yml", "nodes/_u/v/q.yml", "nodes/g/_w/r.yml",
         "nodes/a.b.yml", "nodes/g.x/c.d.yml", "nodes/z/init.yml"]
CLAUSES = [case(PATHS, c, d) for c in (False, True) for d in (False, True)]
# a class refers to the node's metadata
CLAUSES.append(case(["nodes/g/m.yml"], True, False, extra=[{"path": "classes/c.yml", "content": {"parameters": G.enc({"from_class": "${_reclass_:name:short}"})}}]))
CLAUSES[-1]["files"][0]["content"]["classes"] = ["c"]


def expected_meta(req, name, path):
    """The statement's clauses evaluated directly (independent of the Lean model)."""
    cfg = req["config"]
    rel = path.split("/")
    stem = rel[-1].rsplit(".", 1)[0]
    if cfg.get("compose_node_name"):
        segs = rel[:-1] + [stem]
        if cfg.get("literal_dots"):
            parts = name.split(".")
        elif segs[0].startswith("_"):
            parts = [segs[-1]]
        else:
            parts = segs
    else:
        parts = [name]
    return {"full": name, "parts": parts, "path": "/".join(parts), "short": parts[-1]}


class C18(InvProp):
    id = "C18"
    parts = ("discover", "nodes")
    rule = ("op inventory on node trees (depth<=3, dots in file and directory names, _-prefixed directories at every level, "
            "init nodes) x node-name composition x literal-dots flag; every node's parameters reference each _reclass_ field; "
            "compared with the model: node/name/uri/environment and the rendered _reclass_ subtree and references; plus the "
            "statement's clauses evaluated directly on the implementation's output. Non-trivial = node below at least one "
            "directory or with a dot in its name; distinct by input hash.")

    def corpus(self):
        return [dict(c) for c in CLAUSES] + super().corpus()

    def cases(self, tier, seed):
        for j in range(8 if tier == 'quick' else 100):
            rr = Rng(seed, 'C18:scale', j)
            yield GI2.scale_inventory(rr, tier, kind=rr.choice(['long_names', 'deep_dirs']))
        N = 200 if tier == "quick" else 5000
        segs = ["g", "h", "_u", "_w", "g.x", "a-b", "k_1"]
        names = ["n", "m", "a.b", "c.d.e", "_n", "x-1", "init", "a..h", ".h", "x..y.z", "t."]
        for i in range(N):
            r = Rng(seed, "C18", i)
            paths = set()
            for _ in range(r.range(1, 5)):
                d = [r.choice(segs) for _ in range(r.range(0, 3))]
                paths.add("/".join(["nodes"] + d + [r.choice(names) + "." + r.choice(["yml", "yaml"])]))
            yield case(sorted(paths), r.chance(2, 3), r.chance(1, 3))
            if i % 4 == 2:
                # the inventory is addressed by a path relative to the working directory (which differs from case to case)
                cw = case(sorted(paths), r.chance(2, 3), r.chance(1, 3))
                cw["cwd_relative"] = True
                yield cw
            if i % 4 == 1:
                # the inventory directory (constructor) or the nodes/classes directories (config file) are written with a
                # spelling that denotes the same place: doubled or trailing separators, `.` segments, a detour through `..`
                cs = case(sorted(paths), r.chance(2, 3), r.chance(1, 3))
                if r.chance(1, 2):
                    cs["config"]["root_spelling"] = r.choice(["double_slash", "dot", "trailing", "detour", "triple"])
                else:
                    opts = [["nodes_uri", r.choice(["./nodes", "nodes/.", ".//nodes", "classes/../nodes", "./././nodes", "nodes//"])],
                            ["classes_uri", r.choice(["./classes", "classes", "nodes/../classes", "classes/"])],
                            ["compose_node_name", bool(cs["config"].get("compose_node_name", False))]]
                    if cs["config"].get("literal_dots"):
                        opts.append(["reclass_rs_compat_flags", ["compose-node-name-literal-dots"]])
                    cs["config"]["file_options"] = r.shuffle(opts)
                cs["fam"] = "spelled_paths"
                yield cs
            if i % 3 == 0:
                # the same instance renders, has its compatibility flags changed through the public methods, and renders
                # again: metadata must follow the settings in force (compared with a fresh instance)
                lit = r.chance(1, 2)
                c = case(sorted(paths), True if r.chance(4, 5) else False, lit)
                FL = "compose-node-name-literal-dots"
                if lit:
                    steps = r.choice([[{"unset_flag": FL}], [{"clear_flags": 1}], [{"set_flag": FL}, {"render_inventory": 1}, {"unset_flag": FL}]])
                else:
                    steps = r.choice([[{"set_flag": FL}], [{"set_flag": r.choice(["compose_node_name_literal_dots", "ComposeNodeNameLiteralDots"])}],
                                      [{"set_flag": FL}, {"render_inventory": 1}, {"clear_flags": 1}, {"set_flag": FL}]])
                c["lifecycle"] = steps
                yield c

    def judge(self, req, impl, reply):
        j = super().judge(req, impl, reply)
        if j.get("skip") or not isinstance(impl, dict) or "ok" not in (impl.get("discover") or {}):
            return j
        why = []
        for name, (path, _loc) in impl["discover"]["ok"]["nodes"].items():
            r = impl.get("nodes", {}).get(name, {})
            if "ok" not in r:
                continue
            if path.endswith("init.yml") or path.endswith("init.yaml") or name in ("", ".", ".."):
                continue  # init nodes: parts follow the file path, outside the statement's closed form
            m = r["ok"]["meta"]
            if m["node"] != name or m["name"] != name:
                why.append("meta node/name %r/%r != discovered name %r" % (m["node"], m["name"], name))
            if m["uri"] != "yaml_fs://<ROOT>/nodes/" + path:
                why.append("uri %r" % m["uri"])
            if m["environment"] != "base":
                why.append("environment %r" % m["environment"])
            exp = expected_meta(req, name, path)
            params = {k["s"]: v for k, v in core.strip_flags(r["ok"]["params"])["m"] if isinstance(k, dict)}
            rc = params.get("_reclass_")
            try:
                nm = {k["s"]: v for k, v in dict((json_key(k), v) for k, v in rc["m"])["name"]["m"]} if False else None
            except Exception:
                nm = None
            rcd = {k["s"]: v for k, v in rc["m"]}
            nmd = {k["s"]: v for k, v in rcd["name"]["m"]}
            got = {"full": nmd["full"], "parts": nmd["parts"], "path": nmd["path"], "short": nmd["short"]}
            if got != exp:
                why.append("_reclass_.name of %s = %s, expected %s" % (name, got, exp))
            if rcd["environment"] != "base":
                why.append("_reclass_.environment = %r" % rcd["environment"])
            refs = {"full": exp["full"], "short": exp["short"], "path": exp["path"], "parts": exp["parts"], "env": "base",
                    "emb": "n=%s/%s" % (exp["full"], exp["path"])}
            for k, v in refs.items():
                if k not in params:
                    continue   # inventories from other generators do not carry the reference parameters
                if params.get(k) != v:
                    why.append("reference to _reclass_ field %s rendered %r, expected %r" % (k, params.get(k), v))
        if why:
            j["impl_oracle"] = False
            j["concrete"] = True
            j["why"] = (j["why"] + "; " if j["why"] else "") + "; ".join(why[:3])
        return j

    def nontrivial(self, req, impl, reply):
        return any(f["path"].count("/") >= 2 or "." in f["path"].split("/")[-1].rsplit(".", 1)[0] for f in req["files"])


def json_key(k):
    return k.get("s") if isinstance(k, dict) else k


PROP = C18()
