"""C11 — any inventory content yields a value or an error, never a crash."""
from ..runner import Prop
from ..prng import Rng
from .. import core
from .. import genv as G
from .. import geninv as GI
from .. import geninv2 as GI2
from .inv_base import InvProp

RAW = {
    "invalid": "a: [unclosed\n  - x: {",
    "tab": "a:\n\t- 1\n",
    "tag": "parameters:\n  a: !tag x\n",
    "tag_map": "parameters:\n  a: !!set {x, y}\n",
    "tag_key": "parameters:\n  !k a: 1\n",
    "binary": "parameters:\n  a: !!binary aGVsbG8=\n",
    "anchor": "parameters:\n  a: &x {k: 1}\n  b: *x\n  c:\n    <<: *x\n    j: 2\n",
    "merge_rec": "parameters:\n  a: &x {k: 1, <<: {z: 2}}\n  b: {<<: [*x, {q: 1}]}\n",
    "merge_bad": "parameters:\n  a: {<<: 5}\n",
    "alias_bomb": "parameters:\n  a: &a [x, x]\n  b: &b [*a, *a]\n  c: &c [*b, *b]\n  d: [*c, *c]\n",
    "dup_keys": "parameters:\n  a: 1\n  a: 2\n",
    "const_dup": "parameters:\n  =k: 1\n  k: 2\n",
    "const_dup_nested": "parameters:\n  m:\n    ~k: 1\n    =k: 2\n    k: 3\n",
    "complex_key": "parameters:\n  m:\n    ? [1, 2]\n    : 3\n",
    "complex_key_embed": "parameters:\n  m:\n    ? [1, 2]\n    : 3\n  s: \"x${m}\"\n",
    "map_key_embed": "parameters:\n  m:\n    ? {a: 1}\n    : 3\n  s: \"x${m}y\"\n",
    "empty": "",
    "null_doc": "~\n",
    "scalar_doc": "just a string\n",
    "list_doc": "- a\n- b\n",
    "multi_doc": "a: 1\n---\nb: 2\n",
    "classes_scalar": "classes: notalist\n",
    "classes_ints": "classes: [1, 2]\n",
    "classes_null": "classes: ~\n",
    "classes_nested": "classes: [[a]]\n",
    "apps_map": "applications: {a: 1}\n",
    "params_list": "parameters: [1]\n",
    "params_null": "parameters: ~\n",
    "deep_flow": "parameters:\n  a: " + "[" * 200 + "]" * 200 + "\n",
    "deep_flow_map": "parameters:\n  a: " + "{a: " * 150 + "1" + "}" * 150 + "\n",
    "huge_scalar": "parameters:\n  a: \"" + "x" * 200000 + "\"\n",
    "huge_int": "parameters:\n  a: 123456789012345678901234567890\n  b: -0x1F\n  c: 0o17\n  d: 1_000\n  e: .5e-400\n",
    "weird_refs": "parameters:\n  a: \"${\"\n  b: \"${}\"\n  c: \"$[x]\"\n  d: \"${a\"\n  e: \"\\\\${\"\n  f: \"${${${\"\n  g: \"}}}\"\n",
    "ref_class": "classes: ['${', '${a}', '$[x]', '..', '.', '']\n",
    "unicode": "parameters:\n  \"k\\u00e9\": \"\\U0001F600 ${k\\u00e9}\"\n",
    "nonstr_keys": "parameters:\n  1: a\n  true: b\n  ~: c\n  1.5: d\n  r: \"${1}${true}\"\n",
    "bom": "\ufeffparameters: {a: 1}\n",
    "crlf": "parameters:\r\n  a: 1\r\n",
    "map_key_with_seq_key": "parameters:\n  ? {[1, 2]: 3}\n  : foo\n",
    "map_key_with_map_key": "parameters:\n  a:\n    ? {{x: 1}: 3}\n    : foo\n  r: \"${a}\"\n",
    "seq_key_nested": "parameters:\n  ? [[1, {a: [2]}], {b: 1}]\n  : foo\n",
    "ref_into_list": "parameters:\n  l: [1]\n  r: \"${l:0}\"\n  r2: \"${l:x:y}\"\n",
}
# loop shapes: every reference cycle must come back as an error, never recurse without bound
LOOPS = [
    G.P({"a": "${a}"}), G.P({"a": "${b}", "b": "${a}"}), G.P({"a": "x${a}"}), G.P({"a": ["${a}"]}), G.P({"a": {"k": "${a:k}"}}),
    G.P({"a": "${c}"}, {"a": {"z": 1}}, {"c": {"b": "${a:b}"}}),                 # loop through a layered key during a path lookup
    G.P({"a": "${c}", "c": {"b": "${a:b}"}}, {"a": "${c}"}),
    G.P({"a": {"b": "${c}"}}, {"a": {"b": "${c}"}}, {"c": "${a:b}"}),
    G.P({"t": "${u}"}, {"t": "${u}"}, {"u": "${t:k}"}),
    G.P({"sel": "a", "a": "${${sel}}"}), G.P({"a": "${b:${a}}", "b": {"x": 1}}),
    G.P({"a": "${b}"}, {"b": [1]}, {"b": "${a}"}),
    G.P({"l": ["${m:k}"], "m": {"k": "${l}"}}),
]


def crash_case(files, faults=None, **extra):
    d = {"op": "crash", "files": files, "config": {}}
    if faults:
        d["faults"] = faults
    d.update(extra)
    return d


def ok_class(body="parameters: {x: 1}\n"):
    return body


def corpus_cases():
    out = []
    for name, text in RAW.items():
        # as a node, and as a class included by a healthy node
        out.append(crash_case([{"path": "nodes/n.yml", "raw": text}], tag=name))
        out.append(crash_case([{"path": "classes/c.yml", "raw": text}, {"path": "nodes/n.yml", "raw": "classes: [c]\n"}], tag=name))
    out.append(crash_case([{"path": "nodes/n.yml", "raw_bytes": [0xff, 0xfe, 0x00, 0x61, 0x3a, 0x20, 0xc3, 0x28], "raw": ""}], tag="nonutf8"))
    out.append(crash_case([{"path": "classes/c.yml", "raw_bytes": [0xc3, 0x28, 0x0a], "raw": ""}, {"path": "nodes/n.yml", "raw": "classes: [c]\n"}], tag="nonutf8"))
    # symlink loops and dangling links
    out.append(crash_case([{"path": "classes/loop", "kind": "symlink", "target": "."}, {"path": "nodes/n.yml", "raw": "{}\n"}], tag="symlink_loop"))
    out.append(crash_case([{"path": "classes/a/up", "kind": "symlink", "target": ".."}, {"path": "classes/a/c.yml", "raw": "{}\n"}, {"path": "nodes/n.yml", "raw": "classes: [a.c]\n"}], tag="symlink_loop"))
    out.append(crash_case([{"path": "classes/dangling.yml", "kind": "symlink", "target": "nowhere.yml"}, {"path": "nodes/n.yml", "raw": "classes: [dangling]\n"}], tag="dangling"))
    out.append(crash_case([{"path": "nodes/self.yml", "kind": "symlink", "target": "self.yml"}], tag="dangling"))
    # include cycles (fixed defect D2) and long chains / deep nesting (findings D8, D10)
    out.append(crash_case([{"path": "classes/a.yml", "raw": "classes: [b]\n"}, {"path": "classes/b.yml", "raw": "classes: [a]\n"}, {"path": "nodes/n.yml", "raw": "classes: [a]\n"}], tag="cycle"))
    out.append(crash_case([{"path": "classes/a.yml", "raw": "classes: [a, .a, a]\n"}, {"path": "nodes/n.yml", "raw": "classes: [a]\n"}], tag="cycle"))
    out.append(crash_case([], chain=1000, tag="chain1000"))
    out.append(crash_case([], nest=2000, tag="nest2000"))
    out.append(crash_case([], chain=20000, tag="chain20000"))
    out.append(crash_case([], nest=60000, tag="nest60000"))
    # faults between discovery and rendering
    base = [{"path": "classes/c.yml", "raw": "classes: [d]\nparameters: {x: 1}\n"}, {"path": "classes/d.yml", "raw": "parameters: {y: 2}\n"},
            {"path": "nodes/n.yml", "raw": "classes: [c]\nparameters: {z: \"${x}\"}\n"}, {"path": "nodes/m.yml", "raw": "classes: [d]\n"}]
    for kind in ("delete", "truncate", "garbage", "nonutf8", "chmod", "dir"):
        for path in ("classes/c.yml", "classes/d.yml", "nodes/n.yml"):
            out.append(crash_case([dict(f) for f in base], faults=[{"path": path, "kind": kind}], tag="fault:" + kind))
    # the live instance is reconfigured between construction and rendering, also by calls that FAIL half-way (a config
    # file rejected after some of its options were applied, a pattern list that does not compile); whatever state that
    # leaves behind, rendering afterwards must come back
    miss = [{"path": "classes/c.yml", "raw": "classes: [d, gone.one, zz.two]\nparameters: {x: 1}\n"}, {"path": "classes/d.yml", "raw": "parameters: {y: 2}\n"},
            {"path": "nodes/n.yml", "raw": "classes: [c, missing]\n"}, {"path": "nodes/m.yml", "raw": "classes: [d]\n"}]
    long_ok = ["^a$", "^b$", "^c$", "^gone", "^zz", "missing"]
    recs = [
        [{"load_options": [["ignore_class_notfound_regexp", [42]]]}],
        [{"load_options": [["ignore_class_notfound_regexp", ["^zz", 42, "x"]]]}],
        [{"patterns": long_ok}, {"load_options": [["ignore_class_notfound_regexp", ["("]]]}],
        [{"patterns": long_ok}, {"load_options": [["ignore_class_notfound_regexp", []], ["compose_node_name", "notabool"]]}],
        [{"patterns": long_ok}, {"load_options": [["ignore_class_notfound_regexp", ["only"]], ["ignore_class_notfound", 5]]}],
        [{"patterns": long_ok}, {"load_options": [["ignore_class_notfound_regexp", "notalist"]]}],
        [{"load_options": [["ignore_class_notfound", True], ["ignore_class_notfound_regexp", ["^gone", "^zz", "missing", "["]]]}],
        [{"patterns": long_ok}, {"patterns": ["("]}, {"clone": 1}],
        [{"patterns": long_ok}, {"load_options": [["ignore_class_notfound_regexp", []], ["reclass_rs_compat_flags", 7]]}, {"clone": 1}, {"render_inventory": 1}],
        [{"load_options": [["nodes_uri", "elsewhere"], ["ignore_class_notfound", "x"]]}],
        [{"load_options": [["ignore_class_notfound_regexp", ["^gone"]], ["classes_uri", {"a": 1}], ["compose_node_name", []]]}],
    ]
    for ig in (True, False):
        for rc in recs:
            out.append(crash_case([dict(f) for f in miss], reconfigure=rc, tag="reconfigure", config={"ignore_class_notfound": ig}))
    out.append(crash_case([dict(f) for f in base], faults=[{"path": "classes", "kind": "rmdir"}], tag="fault:rmdir"))
    out.append(crash_case([dict(f) for f in base], faults=[{"path": "nodes", "kind": "rmdir"}], tag="fault:rmdir"))
    return out


_INV = InvProp()


class C11(Prop):
    id = "C11"
    serial = True
    rule = ("op crash: the implementation constructs and renders each inventory in-process under catch_unwind, with a "
            "process-level fallback that detects aborts/stack overflows; inputs: a malformed stream of 40 hand-written YAML "
            "shapes (invalid YAML, tags, anchors/merge keys, duplicate/complex/constant-duplicate keys, wrong field types, "
            "empty/null/multi documents, deep flow nesting, huge scalars, odd references), non-UTF-8 bytes, symlink loops and "
            "dangling links, include cycles, long include chains and deep reference nesting, 20 filesystem fault placements "
            "between discovery and rendering (delete, truncate, garbage, non-UTF-8, chmod 000, replace by directory, remove "
            "root), plus random mutations of generated inventories; and op inventory/params agreement with the model on the "
            "panic outcome. Outcome classes: value / error / panic / abort. Non-trivial = malformed or faulted; distinct by hash.")
    explanation = ("Proof covers the modelled logic only: every PanicSite of the evaluator model is unreachable from decoded YAML "
                   "(Reclass.C11.model_total), include-walk and evaluator terminate in the model. Stack exhaustion, the YAML "
                   "parser, the filesystem and non-UTF-8 handling are explored by the crash search, not proved; two stack-depth "
                   "findings and three decoder panics are recorded in known_findings.json.")

    def static_checks(self):
        rc, res = core.site_census_check()
        if res.get("new_sites") or "error" in res:
            return [("census", {"property": "C11", "kind": "panic-site-census", "new_sites": res.get("new_sites"), "error": res.get("error"),
                                "note": "panic site(s) in /repo/src that the committed table (tools/site_table.json) does not map to an "
                                        "unreachability lemma or reason",
                                "broken": {"correspondence": "tools/site_census.py panic-site table", "theorems_depending_on_it": ["Reclass.C11.model_total"]}})]
        return []

    def corpus(self):
        return corpus_cases() + super().corpus()

    def cases(self, tier, seed):
        for c in LOOPS:
            yield dict(c)
        # cyclic reference graphs at every placement (same generator as C08, cyclic-heavy)
        M = 400 if tier == "quick" else 10000
        for i in range(M):
            r = Rng(seed, "C11loops", i)
            if i % 2 == 0:
                layers = G.shaped_stack(r, r.range(2, 5), r.range(1, 3), r.range(0, 2), 0, p_stray=3, strs=["x", "y", "a"])
                G.add_refs(r, layers, r.range(2, 8), p_cyclic=60, p_dangling=2, p_embedded=30)
            else:
                layers = G.clone_point_diamond(r)
                # close a cycle through the shared target
                layers[0]["m"].append(["common2", "${t}"])
                for e in layers[0]["m"]:
                    if e[0] == "common" and r.chance(1, 2):
                        e[1] = r.choice(["${t}", {"m": [["k", "${t}"]]}, ["${u}"], "${t:k}"])
            yield {"op": "params", "layers": layers}
        # include cycles of every shape, also with reference-bearing names on the back edges (C01's directed clauses and
        # random cyclic graphs): construction and rendering must come back
        from .c01 import CLAUSES as _C01
        for c in _C01:
            yield crash_case([{"path": f["path"], "content": f["content"]} for f in c["files"]], tag="include-cycles")
        for i in range(40 if tier == "quick" else 800):
            r = Rng(seed, "C11:cyc", i)
            c = GI.gen_inventory(r, n_classes=r.range(2, 5), shape="cyclic", n_nodes=r.range(1, 2), refnames=90, nested=r.chance(1, 3))
            yield crash_case(c["files"], tag="include-cycles")
        # entries with a YAML extension that are neither files nor directories: never opened, nothing may block
        for i in range(24 if tier == "quick" else 400):
            r = Rng(seed, "C11:special", i)
            c = GI.gen_inventory(r, n_classes=r.range(1, 4), n_nodes=r.range(1, 3), nested=r.chance(1, 2))
            if GI2.special_files(r, c):
                yield c
        N = 150 if tier == "quick" else 4000
        kinds = ["delete", "truncate", "garbage", "nonutf8", "chmod", "dir"]
        raws = list(RAW.items())
        for i in range(N):
            r = Rng(seed, "C11", i)
            c = GI.gen_inventory(r, n_classes=r.range(1, 5), shape=r.choice(["tree", "dag", "cyclic", "chain"]), n_nodes=r.range(1, 3),
                                 missing=r.choice([0, 1]), refnames=r.choice([0, 60]), param_refs=50, nested=r.chance(1, 2), relative=r.choice([0, 50]))
            files = c["files"]
            tag = "mutated"
            # replace a file by a malformed one, or schedule a fault
            if r.chance(1, 2):
                name, text = r.choice(raws)
                files[r.below(len(files))] = {"path": files[r.below(len(files))]["path"], "raw": text}
                # paths must stay unique
                seen = set()
                files = [f for f in files if not (f["path"] in seen or seen.add(f["path"]))]
                tag = "mutated:" + name
            faults = []
            if r.chance(1, 2):
                faults = [{"path": r.choice(files)["path"], "kind": r.choice(kinds)} for _ in range(r.range(1, 2))]
                tag += "+fault"
            yield crash_case(files, faults=faults, tag=tag)

    def judge(self, req, impl, reply):
        if req.get("op") == "inventory":
            return _INV.judge(req, impl, reply)
        if req.get("op") == "params":
            if isinstance(impl, dict) and "crash" in impl:
                return dict(agree=True, spec_ok=None, impl_oracle=False, concrete=True,
                            why="rendering killed the process (rc=%s): %s" % (impl["crash"], impl.get("stderr", "").strip()[-160:]))
            if isinstance(impl, dict) and "panic" in impl:
                return dict(agree=True, spec_ok=None, impl_oracle=False, concrete=True, why="panic: %s" % impl["panic"][:200])
            if isinstance(impl, dict):
                for part in ("merged", "rendered"):
                    if isinstance(impl.get(part), dict) and "panic" in impl[part]:
                        return dict(agree=True, spec_ok=None, impl_oracle=False, concrete=True, why="panic: %s" % impl[part]["panic"][:200])
            return dict(agree=True, spec_ok=None, why="")
        if not isinstance(impl, dict):
            return dict(agree=False, spec_ok=None, why="no observation", skip=True)
        if "crash" in impl:
            return dict(agree=True, spec_ok=None, impl_oracle=False, concrete=True,
                        why="the process was killed (rc=%s): %s" % (impl["crash"], impl.get("stderr", "").strip()[-160:]))
        if "panic" in impl:
            return dict(agree=True, spec_ok=None, impl_oracle=False, concrete=True, why="panic: %s" % impl["panic"][:200])
        if "bad" in impl and "constructed" not in impl:
            return dict(agree=False, spec_ok=None, why="harness rejected: %s" % impl["bad"], skip=True)
        return dict(agree=True, spec_ok=None, why="")

    def nontrivial(self, req, impl, reply):
        return True

    def tags(self, req, impl, reply):
        if req.get("op") == "inventory":
            return ["in:special-files", "out:" + ("hang" if isinstance(impl, dict) and "hang" in impl else "returned")]
        if req.get("op") == "params":
            k = core.norm_result((impl or {}).get("rendered"), True) if isinstance(impl, dict) else ("?",)
            return ["in:refgraph", "out:" + ("error:" + k[1][0] if k[0] == "err" else k[0])]
        t = ["in:" + req.get("tag", "?").split(":")[0]]
        if isinstance(impl, dict):
            if "crash" in impl:
                t.append("out:abort")
            elif "panic" in impl:
                t.append("out:panic")
            elif impl.get("constructed") != "ok":
                t.append("out:construct-error")
            else:
                t.append("out:value" if impl.get("nodes_err", 0) == 0 else "out:error")
        return t

    def matches_known(self, finding, req, impl, reply):
        tag = req.get("tag", "")
        fid = finding.get("id")
        name = tag.split(":")[-1].split("+")[0]
        if fid == "D8":
            return req.get("chain", 0) >= 5000 and isinstance(impl, dict) and "crash" in impl
        if fid == "D10":
            return req.get("nest", 0) >= 20000 and isinstance(impl, dict) and "crash" in impl
        return False


PROP = C11()
