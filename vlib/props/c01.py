"""C01 — classes merge depth-first, each once, node last."""
from .inv_base import InvProp
from ..prng import Rng
from .. import geninv as GI
from .. import geninv2 as GI2
from .. import genv as G


def inv(files, **cfg):
    fs = []
    for path, content in files.items():
        c = dict(content)
        if "parameters" in c:
            c["parameters"] = G.enc(c["parameters"])
        fs.append({"path": path, "content": c})
    return {"op": "inventory", "config": cfg, "files": fs}


def cls(name, includes=(), **params):
    p = {"order": [name], "last": name}
    p.update(params)
    return {"classes": list(includes), "parameters": p}


CLAUSES = [
    # depth-first: a class's own includes before the class itself; siblings in order
    inv({"classes/a.yml": cls("a", ["a1", "a2"]), "classes/a1.yml": cls("a1"), "classes/a2.yml": cls("a2"),
         "classes/b.yml": cls("b"), "nodes/n.yml": cls("n", ["a", "b"])}),
    # diamond: d merged once, the first time it is reached
    inv({"classes/b.yml": cls("b", ["d"]), "classes/c.yml": cls("c", ["d"]), "classes/d.yml": cls("d"),
         "nodes/n.yml": cls("n", ["b", "c"])}),
    # repeated include
    inv({"classes/a.yml": cls("a"), "nodes/n.yml": cls("n", ["a", "a"])}),
    # node included class also included by a class
    inv({"classes/a.yml": cls("a", ["b"]), "classes/b.yml": cls("b"), "nodes/n.yml": cls("n", ["b", "a"])}),
    # node's own definitions last
    inv({"classes/a.yml": cls("a", x=1), "nodes/n.yml": cls("n", ["a"], x=2)}),
    # reference-bearing include resolved against what precedes it
    inv({"classes/first.yml": cls("first", x="a"), "classes/late.yml": cls("late", x="b"), "classes/a.yml": cls("a"),
         "classes/b.yml": cls("b"), "nodes/n.yml": cls("n", ["first", "${x}", "late"])}),
    inv({"classes/first.yml": cls("first", x="a"), "classes/a.yml": cls("a"), "nodes/n.yml": cls("n", ["first", "pre.${x}"]),
         "classes/pre/a.yml": cls("pre.a")}),
    inv({"classes/a.yml": cls("a", ["${x}"], x="b"), "classes/b.yml": cls("b"), "nodes/n.yml": cls("n", ["a"], x="c")}),
    # an include entry without `${` is a literal class name, whatever other marker-like text it contains
    inv({"classes/t$[p].yml": cls("t$[p]"), "classes/t\\$[p].yml": cls("t\\$[p]"), "classes/a.yml": cls("a"),
         "nodes/n.yml": cls("n", ["a", "t\\$[p]"]), "nodes/m.yml": cls("m", ["t$[p]", "a"])}),
    inv({"classes/a.yml": cls("a", ["x\\$[q]"]), "nodes/n.yml": cls("n", ["a"])}),
    inv({"classes/a$b.yml": cls("a$b"), "classes/c}.yml": cls("c}"), "nodes/n.yml": cls("n", ["a$b", "c}"])}),
    # include cycles whose back edges are reference-bearing names
    inv({"classes/defs.yml": cls("defs", role="web"), "classes/web.yml": cls("web", ["${role}"]), "nodes/n.yml": cls("n", ["defs", "${role}"])}),
    inv({"classes/defs.yml": cls("defs", first="a", second="b"), "classes/roles/a.yml": cls("roles.a", ["roles.${second}"]),
         "classes/roles/b.yml": cls("roles.b", ["roles.${first}"]), "nodes/n.yml": cls("n", ["defs", "roles.${first}"])}),
    inv({"classes/defs.yml": cls("defs", role="web"), "classes/web.yml": cls("web", ["${role}", "web"]), "nodes/n.yml": cls("n", ["defs", "web", "${role}"])}),
    # an escaped entry names the class literally called ${baz}; a genuine reference written after it (whose text equals a
    # name in the seen list) is still resolved and loads the class it resolves to
    inv({"classes/${baz}.yml": cls("lit"), "classes/defs.yml": cls("defs", baz="tgt"), "classes/tgt.yml": cls("tgt"),
         "nodes/n.yml": cls("n", ["defs", "\\${baz}", "${baz}"]), "nodes/m.yml": cls("m", ["defs", "${baz}", "\\${baz}", "${baz}"]),
         "nodes/o.yml": cls("o", ["\\${baz}", "defs", "${baz}", "tgt"])}),
    inv({"classes/x${y}z.yml": cls("lit", ["inner"]), "classes/inner.yml": cls("inner", y="-"), "classes/x-z.yml": cls("x-z"),
         "nodes/n.yml": cls("n", ["x\\${y}z", "x${y}z", "x\\${y}z"])}),
    # include cycles whose back edge is a reference that renders to a RELATIVE name (self-include and mutual include)
    inv({"classes/defs.yml": cls("defs", self_ref=".loop", peer=".b", up="..grp.a"), "classes/grp/loop.yml": cls("grp.loop", ["${self_ref}"]),
         "classes/grp/a.yml": cls("grp.a", ["${peer}"]), "classes/grp/b.yml": cls("grp.b", [".a", "${peer}", "${up}"]),
         "nodes/n.yml": cls("n", ["defs", "grp.loop"]), "nodes/m.yml": cls("m", ["defs", "grp.a"]), "nodes/o.yml": cls("o", ["defs", "grp.b", "grp.loop"])}),
    # reference in include that cannot be resolved yet
    inv({"classes/a.yml": cls("a"), "nodes/n.yml": cls("n", ["${x}", "a"], x="a")}),
]


class C01(InvProp):
    id = "C01"
    parts = ("nodes",)
    rule = ("op inventory: real directory trees with include graphs over <=6 classes (trees, DAGs/diamonds, cyclic and self "
            "includes, chains, repeated entries, reference-bearing names whose target is redefined before/after/in the node); "
            "every class appends its name to a list and overrides a scalar so merge order is observable; compared per node: "
            "parameters (ordered), class list, application list, error class + named class. Non-trivial = >=2 classes and a "
            "node including at least one; distinct by input hash.")

    def corpus(self):
        return [dict(c) for c in CLAUSES] + super().corpus()

    def cases(self, tier, seed):
        for j in range(14 if tier == "quick" else 200):
            rr = Rng(seed, "C01:scale", j)
            yield GI2.scale_inventory(rr, tier, kind=rr.choice(["chain", "fan", "diamond_grid", "long_names", "deep_dirs"]))
        for j in range(40 if tier == "quick" else 800):
            yield GI2.yaml_features(Rng(seed, "C01:yaml", j))
        for j in range(30 if tier == "quick" else 600):
            yield GI2.numeric_names(Rng(seed, "C01:num", j))
        N = 250 if tier == "quick" else 6000
        for i in range(N):
            r = Rng(seed, "C01", i)
            yield GI.gen_inventory(r, n_classes=r.range(2, 6), shape=r.choice(["tree", "dag", "cyclic", "chain"]),
                                   nested=r.chance(1, 3), n_nodes=r.range(1, 2), refnames=r.choice([0, 0, 60, 90]),
                                   param_refs=r.choice([0, 40]))
            if i % 4 == 1:
                # one class file under two names (symlinked file or directory) with relative includes inside
                c = GI.gen_inventory(r, n_classes=r.range(2, 6), shape=r.choice(["tree", "dag", "chain"]), nested=True,
                                     relative=r.choice([50, 100]), n_nodes=r.range(1, 3))
                if GI2.add_aliases(r, c):
                    c["fam"] = "aliases"
                    yield c
            if i % 5 == 2:
                # a class file is edited in place between two renders of the same instance
                c = GI.gen_inventory(r, n_classes=r.range(2, 5), shape=r.choice(["tree", "dag", "chain"]), n_nodes=r.range(1, 3), param_refs=40)
                st = GI2.rewrite_step(r, c)
                if st:
                    c["lifecycle"] = [st] if r.chance(2, 3) else [{"render_inventory": 1}, st]
                    c["fam"] = "rewrite"
                    yield c
            if i % 8 == 3:
                c = GI.gen_inventory(r, n_classes=r.range(1, 3), shape="tree", n_nodes=1)
                GI2.relref_groups(r, c, n_nodes=(2, 6))
                c["fam"] = "relref_groups"
                yield c

    def nontrivial(self, req, impl, reply):
        nclasses = sum(1 for f in req["files"] if f["path"].startswith("classes/"))
        return nclasses >= 2 and any(f["path"].startswith("nodes/") and f.get("content", {}).get("classes") for f in req["files"])


PROP = C01()
