"""C06 — escaped markers are literal; marker-free strings are untouched."""
import itertools
from ..runner import Prop
from ..prng import Rng
from .. import core
from .. import genv as G
from .. import gendeep as D

ALPHA = ["$", "{", "}", "[", "\\", ":", "a", "b"]
CLAUSES = ["", "plain", "a$b", "a{b}", "${a}", "\\${a}", "\\$[a]", "\\\\${a}", "${a\\}b}", "${a\\\\}", "${}", "${a", "a}", "${a}}",
           "${a:${b}}", "x${a}y${b}z", "$[a]", "\\\\}", "a\\\\}", "${a:\\${b\\}}", "$${a}", "${${a}}", "\\\\\\${a}", "${a}\\", "é${ü}✓"]


class C06(Prop):
    id = "C06"
    serial = True
    rule = ("op parse (hook parse_token = Token::parse) on every string over {$,{,},[,\\,:,a,b} up to length L (exhaustive) "
            "plus random strings up to length 24 biased to marker neighbourhoods, plus op params rendering each string as a "
            "parameter value; compared: token tree / parse error, rendered string. Non-trivial = contains '$' or '\\\\'; "
            "distinct by input hash.")
    exhaustive = {"quick": "all strings over the 8-letter grammar alphabet of length <= 5 (37449)",
                  "thorough": "all strings over the 8-letter grammar alphabet of length <= 6 (299593)"}

    def corpus(self):
        out = [{"op": "parse", "s": s} for s in CLAUSES]
        out += [G.P({"a": "A", "b": "B", "ü": "U", "v": s}) for s in CLAUSES]
        return out + super().corpus()

    def cases(self, tier, seed):
        # very deep (but finite) nesting, closed and unclosed, interleaved with ordinary strings: whatever the parser does
        # with the deep ones, the ordinary ones after them (same thread, the batch is serial) must parse as always
        for d in ([70, 130, 260, 300] if tier == "quick" else [70, 130, 260, 300, 400]):
            yield {"op": "parse", "s": "${" * d + "a" + "}" * d}
            yield {"op": "parse", "s": "hello ${name}"}
            yield {"op": "parse", "s": "${" * d + "a"}
            yield {"op": "parse", "s": "x${a:${b}}y"}
            yield G.P({"name": "N", "v": "${" * d + "name" + "}" * d, "w": "hello ${name}"})
            yield G.P({"name": "N", "w": "hello ${name}"})
        L = 5 if tier == "quick" else 6
        for n in range(0, L + 1):
            for t in itertools.product(ALPHA, repeat=n):
                yield {"op": "parse", "s": "".join(t)}
        N = 3000 if tier == "quick" else 60000
        frag = ["${", "}", "\\${", "\\$[", "\\\\", "\\}", "$[", "a", "b", ":", "x y", "$", "{", "\\", "${a}", "${b:${a}}", "é"]
        for i in range(N):
            r = Rng(seed, "C06", i)
            s = "".join(r.choice(frag) for _ in range(r.range(1, 10)))
            yield {"op": "parse", "s": s}
            if i % 3 == 0:
                yield G.P({"a": "A", "b": {"A": "deep", "a": "x"}, "v": s})
            if i % 5 == 0:
                # the same string inside a container that is embedded in another string / reached through a path
                c = r.choice([[s], {"k": s}, {"in": [{"s": s}, "plain"]}, [s, "\\${a}"]])
                yield G.P({"a": "A", "b": "B", "c": c, "v": r.choice(["x${c}y", "${c}", "run: ${c}", "${w:${sel}}"]), "sel": "c", "w": {"c": c}})
        for i in range(150 if tier == "quick" else 3000):
            yield {"op": "params", "layers": D.escapes_in_containers(Rng(seed, "C06:esc", i)), "fam": "escapes_in_containers"}
        for i in range(150 if tier == "quick" else 3000):
            yield {"op": "params", "layers": D.escaped_through_lookup(Rng(seed, "C06:lookup", i)), "fam": "escaped_through_lookup"}

    def judge(self, req, impl, reply):
        if req.get("op") == "params":
            if "bad" in reply:
                return dict(agree=False, spec_ok=None, why=reply["bad"], skip=True)
            model = reply["model"]
            if "panic" in impl or "crash" in impl:
                return dict(agree=False, spec_ok=None, why="implementation panicked/crashed: %s" % impl, concrete=True)
            a = core.results_agree(impl.get("rendered"), model.get("rendered"))
            ki = core.norm_result(impl.get("rendered"), True)[0]
            km = core.norm_result(model.get("rendered"), False)[0]
            # C06.render_* theorems make the model's text the mandated one: a different value (or a value where an
            # error is mandated, or the reverse) is a concrete failing input
            return dict(agree=a, spec_ok=None, why="" if a else "rendered differs", concrete=(not a and not (ki == "err" and km == "err")))
        return super().judge(req, impl, reply)

    def nontrivial(self, req, impl, reply):
        s = req.get("s", str(req.get("layers")))
        return "$" in s or "\\" in s

    def tags(self, req, impl, reply):
        if req.get("op") != "parse" or not isinstance(impl, dict):
            return ["op=" + str(req.get("op"))]
        n = core.norm_result(impl, True)
        if n[0] == "ok":
            v = impl["ok"]
            k = "none" if v is None else list(v.keys())[0]
            return ["parse:" + k]
        return ["parse:" + n[0]]


PROP = C06()
