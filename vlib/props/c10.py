"""C10 — override keys replace instead of merging."""
from .params_base import ParamsProp
from ..prng import Rng
from .. import genv as G
from .inv_base import InvProp
from .c01 import inv, cls

_INV = InvProp()


def conflict_then_override(r):
    """Through the class walk (Node::merge_into): classes stack layers of different kinds on one parameter (a conflict if
    it were rendered), a later class or the node overrides that key with ~key (which discards the conflict), and further
    layers merge onto the new value."""
    kinds = [1, "s", [1, 2], {"a": 1}, True, 2.5, {"b": {"c": [1]}}, []]
    k = r.choice(["foo", "cfg"])
    nested = r.chance(1, 3)
    def wrap(key, v):
        return {"outer": {key: v}} if nested else {key: v}
    a, b = r.choice(kinds), r.choice(kinds)
    new = r.choice(kinds)
    files = {"classes/one.yml": cls("one", **wrap(k, a)), "classes/two.yml": cls("two", **wrap(k, b))}
    chain = ["one", "two"]
    if r.chance(1, 2):
        files["classes/mid.yml"] = cls("mid", **wrap(k, r.choice(kinds)))
        chain.append("mid")
    where = r.choice(["class", "node", "none"])
    if where == "class":
        files["classes/fix.yml"] = cls("fix", **wrap("~" + k, new))
        chain.append("fix")
    if r.chance(1, 2):
        files["classes/late.yml"] = cls("late", **wrap(k, r.choice([new, r.choice(kinds)])))
        chain.append("late")
    nodep = wrap("~" + k, new) if where == "node" else {}
    files["nodes/n.yml"] = cls("n", chain, **nodep)
    files["nodes/m.yml"] = cls("m", list(reversed(chain)))
    c = inv(files)
    c["fam"] = "conflict_then_override"
    return c


CLAUSES = [
    G.P({"k": {"a": 1}}, {"~k": [1]}),                      # different kind without conflict
    G.P({"k": [1]}, {"~k": {"a": 1}}, {"k": {"b": 2}}),     # later layers merge onto the new value
    G.P({"k": {"a": 1}}, {"k": 5}, {"~k": [1]}),            # discards the conflict among earlier layers
    G.P({"~k": [1]}),                                       # no earlier value
    G.P({"~k": [1]}, {"k": [2]}),
    G.P({"p": {"k": [1], "s": [1]}}, {"p": {"~k": [2], "s": [2]}}),   # siblings unaffected
    G.P({"p": {"q": {"k": 1}}}, {"p": {"q": {"~k": {"z": 1}}}}),
    G.P({"x": {"~k": [1]}}, {"x": {"k": [2]}}, {"y": {"k": [9]}}, {"y": "${x}"}),   # delivered in a referenced mapping
    G.P({"src": {"~k": [1]}, "p": {"k": [0]}}, {"p": "${src}"}),
    G.P({"k": [0]}, {"~k": [1]}, {"~k": [2]}, {"k": [3]}),
    G.P({"=k": 1}, {"~k": 2}),
    G.P({"~k": None}, {"k": {"a": 1}}),
    G.P({"k": {"a": {"b": 1}}}, {"k": {"~a": 2}}),
]


class C10(ParamsProp):
    id = "C10"
    rule = ("op params on stacks with override markers at any layer and depth <=3, with and without an earlier value, "
            "delivered inside referenced mappings, followed by further layers; compared: merged tree + pending-override flag "
            "sets (hook), rendered tree, error class + parameter. Non-trivial = a '~' key in a stack of >=2 layers; distinct "
            "by input hash.")

    def corpus(self):
        return [dict(c) for c in CLAUSES] + super().corpus()

    families = {"both_flags": 150, "wide_mapping": 40, "override_through_path": 200, "many_layers": 40, "empty_const": 60, "null_const": 30, "odd_keys": 80, "dup_in_one_mapping": 100, "same_value_layers": 60, "wide_layer_lookup": 80}

    def base_cases(self, tier, seed):
        N = 1500 if tier == "quick" else 40000
        for i in range(N):
            r = Rng(seed, "C10", i)
            layers = G.shaped_stack(r, r.range(1, 3), r.range(2, 5), r.range(1, 3), 0, p_stray=25, strs=["x", "y", "1"])
            def mark(v, p):
                if G.is_map(v):
                    for e in v["m"]:
                        if isinstance(e[0], str) and r.chance(p, 100):
                            e[0] = r.weighted([("~", 8), ("=", 1)]) + e[0]
                        mark(e[1], p)
                elif isinstance(v, list):
                    for x in v:
                        mark(x, p)
            for L in layers:
                mark(L, r.choice([10, 20, 35]))
            if r.chance(30, 100):
                G.add_refs(r, layers, r.range(1, 3), p_cyclic=0, p_dangling=0, p_embedded=0)
            yield {"op": "params", "layers": layers}

    def cases(self, tier, seed):
        yield from super().cases(tier, seed)
        for i in range(120 if tier == "quick" else 2500):
            yield conflict_then_override(Rng(seed, "C10:inv", i))

    def judge(self, req, impl, reply):
        if req.get("op") == "inventory":
            return _INV.judge(req, impl, reply)
        return super().judge(req, impl, reply)

    def tags(self, req, impl, reply):
        if req.get("op") == "inventory":
            return _INV.tags(req, impl, reply) + ["family=conflict_then_override"]
        return super().tags(req, impl, reply)

    def nontrivial(self, req, impl, reply):
        if req.get("op") == "inventory":
            return True
        s = str(req["layers"])
        return "'~" in s and len(req["layers"]) >= 2


PROP = C10()
