"""C07 — rendered parameters are plain, closed data and a fixed point."""
import json
from .params_base import ParamsProp, has_ref
from ..prng import Rng
from .. import genv as G
from .. import core

CLAUSES = [
    G.P({"=c": 1, "~o": [1], "p": {"=x": 1, "~y": 2}}, {"o": [2]}),
    G.P({"a": "${b}", "b": {"=k": "${c}"}, "c": [1, "${d}"], "d": None}),
    G.P({"a": {"x": 1}}, {"a": {"x": 2, "y": "${a:x}"}}),
    G.P({"l": [{"a": 1}, ["${l2}"]], "l2": [{"~b": 1}]}),
    # known finding D9: five leading markers survive as one
    G.P({"=====x": 1}),
    G.P({"~~~~~y": 1, "z": 2}),
    # known finding D17 (found by the proof attempt of C07.renderNode_closed): a key with three markers is stripped
    # once per pass and meets its sibling only after the last flattening pass
    G.P({"a": {"x": True}, "===a": {"x": False}}),
]


def find_unclosed(x, path=""):
    """Positions of the rendered output that are not plain data."""
    if isinstance(x, dict):
        if "s" in x and len(x) == 1:
            return [path + " holds an unresolved Value::String"]
        if "vl" in x:
            return [path + " holds a layer list"]
        if "m" in x:
            out = []
            for k, v in x["m"]:
                kk = k.get("s") if isinstance(k, dict) else None
                if isinstance(kk, str) and kk[:1] in ("=", "~"):
                    out.append("%s key %r keeps its marker" % (path, kk))
                out += find_unclosed(v, path + "/" + json.dumps(k))
            return out
        return []
    if isinstance(x, list):
        out = []
        for i, v in enumerate(x):
            out += find_unclosed(v, path + "/%d" % i)
        return out
    return []


class C07(ParamsProp):
    id = "C07"
    check_rerender = True
    rule = ("op params over the C02-C05 generators; every position of the implementation's rendered tree is checked to be "
            "plain data (no Value::String, no layer list, no marker on a key) and the rendered parameters are rendered again "
            "through the public API and must be unchanged (implementation-only oracles), plus model agreement. Non-trivial = "
            "renders successfully and the input has references, markers or multiply-defined keys; distinct by input hash.")

    def corpus(self):
        return [dict(c) for c in CLAUSES] + super().corpus()

    families = {"deep_ref_layers": 200, "wide_mapping": 15, "both_flags": 40, "many_layers": 20, "override_through_path": 40, "odd_keys": 80, "dup_in_one_mapping": 100, "embedded_through_layers": 100, "wide_layer_lookup": 40}

    def base_cases(self, tier, seed):
        N = 1500 if tier == "quick" else 40000
        for i in range(N):
            r = Rng(seed, "C07", i)
            layers = G.shaped_stack(r, r.range(2, 5), r.range(1, 4), r.range(1, 3), r.choice([0, 10, 25]), p_stray=4, strs=["x", "y", "", "1", "a", "b"])
            G.add_refs(r, layers, r.range(0, 5), p_cyclic=3, p_dangling=3, p_embedded=30)
            yield {"op": "params", "layers": layers}

    def cases(self, tier, seed):
        yield from super().cases(tier, seed)
        # rendered parameters are edited in place through the public accessors (a value replaced by a reference, a
        # mixed string, a container holding references) and rendered again: the second render must resolve the new
        # references exactly as rendering the same data built from scratch does, and its result is closed again
        for i in range(150 if tier == "quick" else 3000):
            r = Rng(seed, "C07:edit", i)
            base = {"foo": "bar", "n": 3, "app": {"port": 80, "host": "${name}.example.com", "tags": ["a", "${foo}"]}, "name": "web", "baz": "qux",
                    "deep": {"l1": {"l2": {"v": "x"}}}}
            layers = [base]
            if r.chance(1, 2):
                layers.append({"app": {"port": 81, "extra": "${n}"}})
            path = r.choice([["baz"], ["app", "port"], ["app", "host"], ["deep", "l1", "l2", "v"], ["deep", "l1"], ["n"], ["app", "tags"]])
            val = r.choice(["${foo}", "p-${name}-${n}", ["${foo}", "lit"], {"k": "${app:port}", "l": ["${name}"]}, "${app}", "plain", 7, None, "${deep:l1:l2:v}"])
            c = G.P(*layers)
            c["edit"] = {"path": path, "value": G.enc(val)}
            c["fam"] = "edit_then_render"
            yield c

    def judge(self, req, impl, reply):
        j = super().judge(req, impl, reply)
        if j.get("skip") or not isinstance(impl, dict):
            return j
        ed = impl.get("edit")
        if isinstance(ed, dict) and "inplace" in ed and "fresh" in ed:
            a, b = ed["inplace"], ed["fresh"]
            why = []
            if "bad" in b:
                pass
            elif ("ok" in a) != ("ok" in b) or ("ok" in a and core.strip_flags(core.canon(a["ok"])) != core.strip_flags(core.canon(b["ok"]))):
                why.append("rendering the rendered parameters after an in-place edit (%s := %s) gives %s, rendering the same data built from scratch gives %s"
                           % ("/".join(req["edit"]["path"]), json.dumps(req["edit"]["value"])[:60], json.dumps(a)[:160], json.dumps(b)[:160]))
            if "ok" in a:
                why += ["after an in-place edit and a second render: " + w for w in find_unclosed(a["ok"])[:2]]
            if why:
                j["impl_oracle"] = False
                j["concrete"] = True
                j["why"] = (j.get("why", "") + "; " if j.get("why") else "") + "; ".join(why[:3])
        rd = impl.get("rendered") or {}
        if "ok" in rd:
            bad = find_unclosed(rd["ok"])
            if bad:
                j["impl_oracle"] = False
                j["concrete"] = True
                j["why"] = (j.get("why", "") + "; " if j.get("why") else "") + "; ".join(bad[:3])
        return j

    def nontrivial(self, req, impl, reply):
        return isinstance(impl, dict) and "ok" in (impl.get("rendered") or {}) and (
            has_ref(req["layers"]) or len(req["layers"]) > 1 or any(isinstance(k, str) and k[:1] in "=~" for L in req["layers"] for k, _ in L["m"]))

    def matches_known(self, finding, req, impl, reply):
        if finding.get("id") == "D17":
            return self.matches_d17(req, impl, reply)
        if finding.get("id") != "D9":
            return False
        # the minimal failing case: some source key keeps a marker after five strips
        def keys(x):
            if isinstance(x, dict) and "m" in x:
                for k, v in x["m"]:
                    yield k
                    yield from keys(v)
            elif isinstance(x, list):
                for v in x:
                    yield from keys(v)
        def nmarkers(k):
            n = 0
            while isinstance(k, str) and n < len(k) and k[n] in "=~":
                n += 1
            return n
        j = self.judge(req, impl, reply)
        # only the recorded failure mode: the model agrees, and what fails is a leftover marker /
        # the fixed point, on an input that has a key with five or more leading markers
        return j["agree"] and any(nmarkers(k) >= 5 for L in req["layers"] for k in keys(L))


    def matches_d17(self, req, impl, reply):
        """only the recorded failure mode: the model agrees, the rendered output shows a layer list, and the input has a
        key with three or more markers whose stripped name is also written by another key"""
        def keys(x):
            if isinstance(x, dict) and "m" in x:
                for k, v in x["m"]:
                    yield k
                    yield from keys(v)
            elif isinstance(x, list):
                for v in x:
                    yield from keys(v)
        def split(k):
            n = 0
            while n < len(k) and k[n] in "=~":
                n += 1
            return n, k[n:]
        ks = [split(k) for L in req["layers"] for k in keys(L) if isinstance(k, str)]
        names = [b for _, b in ks]
        hit = any(n >= 3 and names.count(b) >= 2 for n, b in ks)
        j = self.judge(req, impl, reply)
        return hit and j["agree"] and "layer list" in j.get("why", "")


PROP = C07()
