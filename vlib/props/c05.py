"""C05 — embedded references render as text of the rendered value."""
from .params_base import ParamsProp, has_ref
from ..prng import Rng
from .. import genv as G
from .. import core

CLAUSES = [
    G.P({"n": 1, "f": 1.5, "t": True, "fl": False, "z": None, "s": "str", "e": "",
         "r": "a${n}b${f}c${t}d${fl}e${z}f${s}g${e}h"}),
    G.P({"l": [1, "two", True, None, 2.5, [3], {"k": "v"}], "r": "x${l}y"}),
    G.P({"m": {"b": 1, "a": "q\"uote", "c": {"z": None, "y": [1]}}, "r": "x${m}"}),
    G.P({"m": {1: "int key", True: "bool key", None: "null key", "s": "str"}, "r": "x${m}"}),
    G.P({"b": "B", "m": {"a": "${b}", "l": ["${b}", "p${b}"]}, "r": "x${m}y"}),
    G.P({"m": {"a": 1}}, {"m": {"a": 2, "b": [1]}}, {"m": {"b": [2]}, "r": "x${m}"}),
    G.P({"big": 18446744073709551615, "neg": -9223372036854775808, "l": [9007199254740993], "r": "${big} ${neg} ${l}"}),
    G.P({"a": "1", "b": "2", "r": "${a}${b}", "r2": "${a}-${b}-${a}"}),
    G.P({"a": "x${b}", "b": "y${c}", "c": "z", "r": "[${a}]"}),
    G.P({"s": "ctl\u0001\n\t\\ \"q\" é✓", "l": ["ctl\u0001\n\t\\ \"q\" é✓"], "r": "x${l}", "r2": "x${s}"}),
    G.P({"sel": "a", "t": {"a": "A"}, "r": "v=${t:${sel}}"}),
    G.P({"nan": float("nan"), "inf": float("inf"), "l": [float("nan"), float("inf"), 0.1], "r": "x${nan}${inf}${l}"}),
]
CLAUSES[-1]["layers"][0]["m"][0][1] = {"f": [".nan", ""]}
CLAUSES[-1]["layers"][0]["m"][1][1] = {"f": [".inf", ""]}
CLAUSES[-1]["layers"][0]["m"][2][1] = [{"f": [".nan", ""]}, {"f": ["-.inf", ""]}, {"f": ["0.1", ""]}]


def has_embedded(x):
    if isinstance(x, str):
        return "${" in x and not (x.startswith("${") and x.endswith("}") and x.count("${") == 1)
    if isinstance(x, list):
        return any(has_embedded(v) for v in x)
    if isinstance(x, dict):
        return any(has_embedded(v) for v in x.values())
    return False


class C05(ParamsProp):
    id = "C05"
    rule = ("op params with strings mixing literal pieces and references over every kind of referenced value (scalars, "
            "floats incl. nan/inf, 64-bit integer extremes, strings needing JSON escapes, mappings/lists containing references "
            "or layered keys, non-string keys); compared: the rendered string. Non-trivial = contains an embedded reference "
            "and renders; distinct by input hash.")

    def corpus(self):
        return [dict(c) for c in CLAUSES] + super().corpus()

    families = {"escapes_in_containers": 120, "many_refs": 60, "empty_segments": 30, "embedded_chain": 20, "odd_keys": 80, "colon_selectors": 30, "padded_refs": 150, "embedded_through_layers": 150}

    def base_cases(self, tier, seed):
        N = 1200 if tier == "quick" else 30000
        for i in range(N):
            r = Rng(seed, "C05", i)
            layers = G.shaped_stack(r, r.range(2, 5), r.range(1, 3), r.range(1, 3), r.choice([0, 0, 5]), p_stray=3)
            G.add_refs(r, layers, r.range(1, 6), p_cyclic=3, p_dangling=3, p_embedded=85)
            yield {"op": "params", "layers": layers}

    def nontrivial(self, req, impl, reply):
        return has_embedded(req["layers"]) and isinstance(impl, dict) and "ok" in (impl.get("rendered") or {})


PROP = C05()
