"""C17 — application lists accumulate in merge order with ~ negation."""
import itertools
from ..runner import Prop
from ..prng import Rng
from .inv_base import InvProp
from .. import geninv as GI

_INV = InvProp()
_INV.parts = ("nodes",)

ALPHA = ["a", "b", "~a", "~b"]


class C17(Prop):
    id = "C17"
    rule = ("op lists: fold of RemovableList::merge over per-file entry lists, compared on items and pending "
            "negations (hook verif_parts). Cases: exhaustive single lists over {a,b,~a,~b} up to length L, "
            "exhaustive triples of lists of length<=2, random longer multi-file sequences over a 6-letter alphabet "
            "incl. '~~x', '~' and ''. Non-trivial = at least one negated and one plain entry; distinct by input hash.")
    exhaustive = {"quick": "all single lists over {a,b,~a,~b} of length<=5; all triples of lists of length<=1",
                  "thorough": "all single lists over {a,b,~a,~b} of length<=7; all triples of lists of length<=2"}

    def cases(self, tier, seed):
        L = 5 if tier == "quick" else 7
        T = 1 if tier == "quick" else 2
        for n in range(0, L + 1):
            for t in itertools.product(ALPHA, repeat=n):
                yield {"op": "lists", "lists": [list(t)]}
        shorts = [list(t) for n in range(0, T + 1) for t in itertools.product(ALPHA, repeat=n)]
        for a in shorts:
            for b in shorts:
                for c in shorts:
                    yield {"op": "lists", "lists": [a, b, c]}
        pool = ["a", "b", "c", "~a", "~b", "~c", "~~a", "~", "", "a~", "d"]
        N = 300 if tier == "quick" else 5000
        for i in range(N):
            r = Rng(seed, "C17", i)
            files = []
            for _ in range(r.range(1, 6)):
                files.append([r.choice(pool) for _ in range(r.range(0, 7))])
            yield {"op": "lists", "lists": files}
            if i % 3 == 0:
                yield {"op": "ulists", "lists": files}
        # long lists: sizes past any threshold at which an implementation might switch representation
        # (index, hash set, sorted vector), with removals and re-additions after the list has grown
        sizes = [33, 40, 65, 70, 130] if tier == "quick" else [33, 40, 65, 70, 130, 260, 520, 1030, 4100]
        for i in range(40 if tier == "quick" else 600):
            r = Rng(seed, "C17long", i)
            n = r.choice(sizes)
            base = ["app%03d" % k for k in range(n)]
            files = [list(base)] if r.chance(1, 2) else [base[: n // 2], base[n // 2:]]
            ops = []
            for _ in range(r.range(2, 12)):
                x = "app%03d" % r.below(n + 3)
                ops += r.choice([["~" + x, x], ["~" + x], [x], ["~" + x, "other", x], ["~" + x, "~" + x, x, x], [x, "~" + x, x]])
            where = r.choice(["same", "next", "split"])
            if where == "same":
                files[-1] = files[-1] + ops
            elif where == "next":
                files.append(ops)
            else:
                k = r.below(len(ops) + 1)
                files.append(ops[:k])
                files.append(ops[k:])
            yield {"op": "lists", "lists": files, "fam": "long"}
            if i % 2 == 0:
                yield {"op": "ulists", "lists": files, "fam": "long"}
            if i % 8 == 0:
                # the same through a real inventory: classes contribute the long list, the node removes and re-adds
                cls = [{"path": "classes/big%d.yml" % j, "content": {"applications": f}} for j, f in enumerate(files[:-1] or files)]
                node = {"path": "nodes/n.yml", "content": {"classes": ["big%d" % j for j in range(len(cls))], "applications": files[-1] if len(files) > 1 else []}}
                yield {"op": "inventory", "config": {}, "files": cls + [node], "fam": "long"}
        # entries written as plain YAML scalars that look like numbers / booleans / nulls: the entry is its source text
        toks = ["1.10", "1.1", "2.0", "1e3", "1000.0", "0x1F", "31", "+5", "5", "True", "true", "TRUE", "no", "~1.10", "~1e3", "~0x1F", "~True", "007", "7",
                "1_000", ".5", "0.5", "-0", "12345678901234567890123", "app", "\"1.10\"", "'2.0'", "0o17", "15", ".inf", ".nan", "~.inf", "null", "~", "Null"]
        for i in range(120 if tier == "quick" else 3000):
            r = Rng(seed, "C17raw", i)
            def lst():
                return "[" + ", ".join(r.choice(toks) for _ in range(r.range(1, 5))) + "]"
            files = [{"path": "classes/base.yml", "raw": "applications: %s\nclasses: []\n" % lst()},
                     {"path": "classes/mid.yml", "raw": "classes: [base]\napplications: %s\n" % lst()},
                     {"path": "nodes/n.yml", "raw": "classes: [mid]\napplications: %s\nparameters: {}\n" % lst()}]
            if r.chance(1, 4):
                files.append({"path": "classes/1.10.yml", "raw": "applications: [from_num_class]\n"})
                files[2]["raw"] = "classes: [mid, 1.10]\napplications: %s\n" % lst()
            yield {"op": "inventory", "config": {}, "files": files, "fam": "raw_scalars"}
        from .. import geninv2 as _GI2
        for j in range(30 if tier == "quick" else 600):
            yield _GI2.numeric_names(Rng(seed, "C17:num", j))
        # the node's list is the accumulation of the per-file lists in merge order (with C01)
        M = 80 if tier == "quick" else 2000
        apps = ["app_a", "app_b", "app_c", "~app_a", "~app_b", "~app_c", "app_d", "~~x"]
        for i in range(M):
            r = Rng(seed, "C17inv", i)
            c = GI.gen_inventory(r, n_classes=r.range(1, 6), shape=r.choice(["tree", "dag", "cyclic"]), n_nodes=r.range(1, 2))
            for f in c["files"]:
                f["content"]["applications"] = [r.choice(apps) for _ in range(r.range(0, 4))]
            yield c

    def judge(self, req, impl, reply):
        if req.get("op") == "inventory":
            return _INV.judge(req, impl, reply)
        return super().judge(req, impl, reply)

    def nontrivial(self, req, impl, reply):
        if req.get("op") == "inventory":
            flat = [e for f in req["files"] for e in (f.get("content") or {}).get("applications", [])]
            return any(e.startswith("~") for e in flat) and any(not e.startswith("~") for e in flat)
        flat = [e for l in req["lists"] for e in l]
        return any(e.startswith("~") for e in flat) and any(not e.startswith("~") for e in flat)

    def tags(self, req, impl, reply):
        if req.get("op") == "inventory":
            return ["op=inventory"]
        flat = [e for l in req["lists"] for e in l]
        t = ["files=%d" % min(len(req["lists"]), 6), "op=" + req["op"]]
        if impl and "ok" in impl:
            t.append("pending_left" if impl["ok"].get("negs") else "no_pending")
        return t


PROP = C17()
