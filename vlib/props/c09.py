"""C09 — constant keys cannot be changed by later layers."""
from .params_base import ParamsProp
from ..prng import Rng
from .. import genv as G

CLAUSES = [
    G.P({"=k": 1}, {"k": 2}),
    G.P({"=k": 1}, {"~k": 2}),
    G.P({"=k": 1}, {"=k": 1}),
    G.P({"=k": 1}, {"k": None}),
    G.P({"=k": {"a": 1}}, {"k": {"b": 2}}),
    G.P({"k": 0}, {"=k": 1}),                      # layers before the constant merge normally
    G.P({"k": [0]}, {"=k": [1]}, {"j": 2}),
    G.P({"p": {"=k": 1, "s": 1}}, {"p": {"s": 2}}),  # siblings unaffected
    G.P({"p": {"=k": 1}}, {"p": {"k": 2}}),
    G.P({"p": {"q": {"=k": 1}}}, {"p": {"q": {"k": 2}}}),
    G.P({"p": {"=k": 1}}, {"p": None}, {"p": {"k": 2}}),       # enclosing null lifts
    G.P({"p": {"=k": 1}}, {"~p": {"k": 2}}),                   # enclosing override lifts
    G.P({"p": {"=k": 1}}, {"p": {"k": 2}}, {"p": None}),       # eager: later null does not rescue
    G.P({"src": {"=k": 1}, "p": "${src}"}, {"p": {"k": 2}}),   # constant delivered by reference
    G.P({"src": {"k": 2}, "p": {"=k": 1}}, {"p": "${src}"}),   # writer delivered by reference
    G.P({"=k": 1, "r": "${k}"}),
    G.P({"=k": 1}, {"j": 1}, {"k": 1}),
]


class C09(ParamsProp):
    id = "C09"
    rule = ("op params on stacks with constant markers at any layer and depth <=3, followed by writers of every kind (plain, "
            "override, constant, null, reference-delivered); compared: merged tree + flag sets (hook verif_flags), rendered "
            "tree, constKey error and the key it names. Non-trivial = a '=' key and a later layer touching the same mapping; "
            "distinct by input hash.")

    def corpus(self):
        return [dict(c) for c in CLAUSES] + super().corpus()

    families = {"both_flags": 200, "wide_mapping": 25, "empty_const": 200, "null_const": 150, "odd_keys": 80, "same_value_layers": 200, "wide_layer_lookup": 120}

    def base_cases(self, tier, seed):
        N = 1500 if tier == "quick" else 40000
        for i in range(N):
            r = Rng(seed, "C09", i)
            layers = G.shaped_stack(r, r.range(1, 3), r.range(2, 5), r.range(1, 3), 0, p_stray=6, strs=["x", "y", "1"])
            # constant markers at a controlled fraction of keys, at every depth
            def mark(v, p):
                if G.is_map(v):
                    for e in v["m"]:
                        if isinstance(e[0], str) and r.chance(p, 100):
                            e[0] = r.weighted([("=", 8), ("~", 2)]) + e[0]
                        mark(e[1], p)
                elif isinstance(v, list):
                    for x in v:
                        mark(x, p)
            for L in layers:
                mark(L, r.choice([10, 20, 35]))
            if r.chance(30, 100):
                G.add_refs(r, layers, r.range(1, 3), p_cyclic=0, p_dangling=0, p_embedded=0)
            yield {"op": "params", "layers": layers}

    def nontrivial(self, req, impl, reply):
        s = str(req["layers"])
        return "'=" in s and len(req["layers"]) >= 2


PROP = C09()
