"""Shared judge for properties observed through op `inventory`."""
from ..runner import Prop
from .. import core


def norm_collision(n):
    if n[0] == "err" and n[1] and n[1][0] == "collision":
        return ("err", ["collision"])
    return n


def lexical(p):
    """Lexical normal form of a path in an error message (prefix <ROOT> kept)."""
    import posixpath
    if not isinstance(p, str):
        return p
    pre = ""
    if p.startswith("<ROOT>"):
        pre, p = "<ROOT>", p[len("<ROOT>"):]
    q = posixpath.normpath(p) if p else p
    if q.startswith("//"):
        q = q[1:]
    return pre + q


class InvProp(Prop):
    serial = False
    # which parts of the observation this property compares
    parts = ("discover", "nodes", "inventory")
    model_is_spec = True

    def judge(self, req, impl, reply):
        if req.get("op") != "inventory":
            return super().judge(req, impl, reply)
        if req.get("fam") == "linked_inventory" and isinstance(impl, dict) and not req.get("_masked"):
            # which path the uri spells for an inventory behind a symlink is the textual one; it is compared between the
            # implementation's own single and whole-inventory renders (entries_equal_single), not with the model
            import copy
            impl, reply = copy.deepcopy(impl), copy.deepcopy(reply)
            for side in (impl, (reply or {}).get("model") or {}):
                for v in (side.get("nodes") or {}).values():
                    if isinstance(v, dict) and "ok" in v and "meta" in v["ok"]:
                        v["ok"]["meta"]["uri"] = "<masked>"
        if isinstance(impl, dict) and "crash" in impl:
            return dict(agree=False, spec_ok=None, why="implementation crashed the process (rc=%s): %s" % (impl["crash"], impl.get("stderr", "")[-120:]), concrete=True, crash=True)
        if "bad" in reply:
            return dict(agree=False, spec_ok=None, why="model rejected: %s" % reply["bad"], skip=True)
        if not isinstance(impl, dict) or ("bad" in impl and "discover" not in impl):
            return dict(agree=False, spec_ok=None, why="harness rejected: %s" % impl, skip=True)
        if "panic" in impl:
            return dict(agree=False, spec_ok=None, why="implementation panicked: %s" % impl["panic"], concrete=True, panic=True)
        if "hang" in impl:
            return dict(agree=False, spec_ok=None, impl_oracle=False, concrete=True,
                        why="constructing/rendering the inventory did not return within %s s" % impl["hang"])
        model = reply["model"]
        why = []
        if "config" in impl or "config" in model:
            ok = ("config" in impl) == ("config" in model)
            return dict(agree=ok, spec_ok=None, why="" if ok else "config construction differs")
        di = core.norm_result(impl.get("discover"), True)
        dm = core.norm_result(model.get("discover"), False)
        if norm_collision(di) != norm_collision(dm):
            why.append("discovery differs")
        elif di[0] == "err" and di[1][0] == "collision":
            # both report a collision for the same name: the pair must be the same two files
            ia = core.C.classify(impl["discover"]["err"])
            # the message spells the files below the directory as configured (./nodes, nodes//, a/../nodes): the same files
            ia = ia[:2] + [lexical(x) for x in ia[2:4]] + ia[4:]
            col = (model.get("colliders") or {}).get(ia[1])
            if col is None:
                why.append("collision error names %r, which no two listed files derive (colliding names: %s)" % (ia[1], sorted((model.get("colliders") or {}).keys())))
            elif ia[2] == ia[3] or not (ia[2] in col and ia[3] in col):
                why.append("collision error names files %s, %s; files deriving that name: %s" % (ia[2], ia[3], col))
        if di[0] == "ok" and dm[0] == "ok" and not why:
            if "nodes" in self.parts:
                ni, nm = impl.get("nodes", {}), model.get("nodes", {})
                if set(ni) != set(nm):
                    why.append("node sets differ")
                else:
                    for k in ni:
                        if not core.results_agree(ni[k], nm[k]):
                            a_, b_ = core.norm_result(ni[k], True), core.norm_result(nm[k], False)
                            if a_[0] == "err" and b_[0] == "err":
                                why.append("ERRCLASS node %s: implementation reports %s, model %s" % (k, a_[1], b_[1]))
                            else:
                                why.append("node %s differs" % k)
                            break
            if "inventory" in self.parts:
                def srt(x):
                    if x and isinstance(x.get("ok"), dict) and "nodes" in x["ok"]:
                        x = {"ok": dict(x["ok"], nodes=sorted(x["ok"]["nodes"]))}
                    return x
                ii = core.norm_result(srt(impl.get("inventory")), True)
                im = core.norm_result(srt(model.get("inventory")), False)
                if ii[0] == "err" and im[0] == "err" and ii[1][0] == "nodeFailed" and im[1][0] == "nodeFailed":
                    # which failing node is named depends on hash order: it must be one that fails
                    if ii[1][1] not in model.get("failing", []):
                        why.append("inventory error names node %s which does not fail" % ii[1][1])
                elif ii != im:
                    why.append("inventory differs")
                if impl.get("inventory", {}).get("ok", {}).get("entries_equal_single") is False:
                    why.append("inventory entry differs from single-node render")
            if not core.results_agree(impl.get("unknown"), model.get("unknown")):
                why.append("unknown-node error differs")
        agree = not why
        # concrete failing input unless the only difference is which of two errors is reported
        concrete = False
        if not agree and self.model_is_spec:
            concrete = any(not w.startswith("ERRCLASS") for w in why)
            if why == ["discovery differs"] and di[0] == "err" and dm[0] == "err":
                concrete = False
        oracle = None
        lc = impl.get("lifecycle")
        if isinstance(lc, dict):
            # implementation-only: a live instance reconfigured through its public methods behaves like a fresh
            # instance with the final settings; a clone taken before keeps behaving like the original
            if lc.get("after_eq_fresh") is False:
                oracle = False
                why += lc.get("diffs", [])[:2]
            if lc.get("clone_stable") is False:
                oracle = False
                why += lc.get("clone_diffs", [])[:2]
            if oracle is False:
                concrete = True
        return dict(agree=agree, spec_ok=None, impl_oracle=oracle, why="; ".join(why), concrete=concrete)

    def tags(self, req, impl, reply):
        if req.get("op") != "inventory" or not isinstance(impl, dict):
            return []
        t = []
        if req.get("fam"):
            t.append("family=" + req["fam"])
        if "lifecycle" in req:
            t.append("lifecycle")
        d = core.norm_result(impl.get("discover"), True)
        t.append("discover:" + (d[0] if d[0] != "err" else "err:" + d[1][0]))
        for k, v in (impl.get("nodes") or {}).items():
            n = core.norm_result(v, True)
            t.append("node:" + (n[0] if n[0] != "err" else "err:" + str(n[1][0])))
        return t
