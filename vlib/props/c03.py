"""C03 — a whole-value reference yields the final rendered value at its path."""
from .params_base import ParamsProp, has_ref
from ..prng import Rng
from .. import genv as G
from .. import core

CLAUSES = [
    G.P({"a": "${b}", "b": "${c}", "c": {"x": 1, "y": [1, 2]}}),
    G.P({"t": {"n": 1, "b": True, "z": None, "s": "str", "l": [1], "m": {"k": "v"}},
         "r1": "${t:n}", "r2": "${t:b}", "r3": "${t:z}", "r4": "${t:s}", "r5": "${t:l}", "r6": "${t:m}", "r7": "${t}"}),
    G.P({"sel": "b", "t": {"a": 1, "b": {"c": 2}}, "r": "${t:${sel}}", "r2": "${t:${sel}:c}"}),
    G.P({"t": {"a": [1]}}, {"t": {"a": [2], "b": "x"}}, {"r": "${t:a}", "r2": "${t}"}),
    G.P({"t": {"a": "${u}"}, "u": {"deep": "${v}"}, "v": 7, "r": "${t:a:deep}"}),
    G.P({"r": "${t:a}"}, {"t": {"a": 1}}),
    G.P({"t": {"a": 1}, "r": "${t:nope}"}),
    G.P({"r": "${nope}"}),
    G.P({"t": 5, "r": "${t:a}"}),
    G.P({"t": [1, 2], "r": "${t:0}"}),
    G.P({"t": "${u}", "u": {"a": 1}, "r": "${t:a}"}),
    G.P({"t": {"a": 1}}, {"t": "${u}"}, {"u": {"b": 2}, "r": "${t:b}", "r2": "${t:a}"}),
    G.P({1: "one", "r": "${1}"}),
    G.P({"a": {"b": {"c": "${x}"}}, "x": "${y}", "y": [1, {"k": "${z}"}], "z": None, "r": "${a:b:c}"}),
]
# known finding F2: a mapping that writes one key twice (k and =k) makes ${t:k} differ from the rendered t.k
CLAUSES.append({"op": "params", "layers": [G.enc({"t": {"k": {"p": 1}}}), {"m": [["t", {"m": [["k", None], ["=k", G.enc({"q": 2})]]}]]}, G.enc({"a": "${t:k}"})]})
CLAUSES.append({"op": "params", "layers": [G.enc({"t": {"k": [1]}}), {"m": [["t", {"m": [["k", [2]], ["~k", [3]]]}]]}, G.enc({"a": "${t:k}"})]})


def walk_path(tree, segs):
    """Value at a path of string keys inside a rendered tree (protocol encoding), or None."""
    cur = tree
    for sg in segs:
        if not (isinstance(cur, dict) and "m" in cur):
            return None
        nxt = None
        for k, v in cur["m"]:
            if isinstance(k, dict) and k.get("s") == sg:
                nxt = v
                break
        else:
            return None
        cur = nxt
    return cur


def dup_marker_keys(x):
    """Does some mapping write one key twice (with and without a marker)?"""
    if isinstance(x, dict) and "m" in x:
        ks = [repr(G.strip_marker(k)) for k, _ in x["m"]]
        if len(set(ks)) < len(ks):
            return True
        return any(dup_marker_keys(v) for _, v in x["m"])
    if isinstance(x, list):
        return any(dup_marker_keys(v) for v in x)
    return False


def whole_ref_violations(req, impl):
    """The statement evaluated on the implementation's output: a key whose only definition is a
    whole-value reference with a literal path must equal the rendered value at that path."""
    rd = (impl.get("rendered") or {}).get("ok")
    if rd is None:
        return []
    def bare(k):
        # keys are re-stripped once per pass (D9), so '~=k1' ends up writing k1: count every spelling
        while isinstance(k, str) and k[:1] in ("=", "~"):
            k = k[1:]
        return k
    defs = {}
    for L in req["layers"]:
        for k, v in L["m"]:
            defs.setdefault(repr(bare(k)), []).append((k, v))
    out = []
    for kk, dv in defs.items():
        if len(dv) != 1:
            continue
        k, v = dv[0]
        if not (isinstance(k, str) and isinstance(v, str) and v.startswith("${") and v.endswith("}") and v.count("$") == 1 and "\\" not in v):
            continue
        segs = v[2:-1].split(":")
        got = walk_path(rd, [G.strip_marker(k)])
        exp = walk_path(rd, segs)
        if got is None or exp is None:
            continue
        if core.strip_flags(core.canon(got)) != core.strip_flags(core.canon(exp)):
            out.append("parameter %s = %s renders to %s, but the rendered value at that path is %s" % (
                k, v, str(core.strip_flags(got))[:120], str(core.strip_flags(exp))[:120]))
    return out


class C03(ParamsProp):
    id = "C03"
    rule = ("op params with whole-value references built from the current tree (chains, fan-out, nested ${a:${b}} paths, "
            "references into layered and into referenced targets, every target kind, dangling paths); compared: rendered tree "
            "or error class + reference + missing key. Each random case is also run with its top-level entries permuted "
            "(implementation-only twin: same rendered data). Non-trivial = contains a whole-value reference and renders or "
            "fails with a lookup error; distinct by input hash.")

    def corpus(self):
        return [dict(c) for c in CLAUSES] + super().corpus()

    families = {"deep_ref_layers": 40, "empty_segments": 120, "override_through_path": 120, "many_refs": 20, "odd_keys": 80, "dup_in_one_mapping": 100, "colon_selectors": 120, "sibling_fullpath_refs": 40, "wide_layer_lookup": 100, "dangling_then_reset": 100, "embedded_through_layers": 40}

    def base_cases(self, tier, seed):
        N = 1200 if tier == "quick" else 30000
        for i in range(N):
            r = Rng(seed, "C03", i)
            layers = G.shaped_stack(r, r.range(2, 6), r.range(1, 4), r.range(1, 3), r.choice([0, 0, 6]), p_stray=4, strs=["x", "y", "", "1", "a", "b"])
            G.add_refs(r, layers, r.range(1, 6), p_cyclic=4, p_dangling=6, p_embedded=10)
            c = {"op": "params", "layers": layers}
            yield c
            if i % 4 == 0:
                yield {"op": "params", "layers": G.clone_point_diamond(Rng(seed, "C03d", i))}
            if len(layers) == 1 and i % 2 == 0:
                # permuted twin
                perm = r.shuffle(layers[0]["m"])
                yield {"op": "params", "layers": [{"m": perm}], "twin_of": core.case_hash(c)}

    def judge(self, req, impl, reply):
        j = super().judge(req, impl, reply)
        if j.get("skip") or not isinstance(impl, dict) or req.get("op") != "params":
            return j
        bad = whole_ref_violations(req, impl)
        if bad:
            j["impl_oracle"] = False
            j["concrete"] = True
            j["why"] = (j["why"] + "; " if j.get("why") else "") + "; ".join(bad[:2])
        return j

    def matches_known(self, finding, req, impl, reply):
        if finding.get("id") != "F2":
            return False
        j = self.judge(req, impl, reply)
        return j["agree"] and any(dup_marker_keys(L) for L in req["layers"])

    def nontrivial(self, req, impl, reply):
        return has_ref(req["layers"]) and isinstance(impl, dict) and (
            "ok" in (impl.get("rendered") or {}) or core.norm_result(impl.get("rendered"), True)[0] == "err")

    def post_check(self, results):
        """Order independence (implementation-only oracle): a permuted single layer renders
        to the same data."""
        out = []
        byhash = {}
        for (req, impl, reply) in results:
            if "twin_of" not in req:
                byhash[core.case_hash({k: v for k, v in req.items()})] = (req, impl)
        def sortrec(x):
            x = core.strip_flags(core.canon(x))
            if isinstance(x, dict) and "m" in x:
                return {"m": sorted(([sortk(k), sortrec(v)] for k, v in x["m"]), key=lambda e: repr(e[0]))}
            if isinstance(x, list):
                return [sortrec(v) for v in x]
            return x
        def sortk(k):
            return k
        for (req, impl, reply) in results:
            t = req.get("twin_of")
            if t and t in byhash:
                oreq, oimpl = byhash[t]
                a = core.norm_result(oimpl.get("rendered"), True)
                b = core.norm_result(impl.get("rendered"), True)
                if a[0] == "ok" and b[0] == "ok":
                    if sortrec(oimpl["rendered"]["ok"]) != sortrec(impl["rendered"]["ok"]):
                        out.append((req, impl, reply, dict(agree=True, spec_ok=None, impl_oracle=False, concrete=True,
                                                           why="rendered data depends on the order in which parameters are written (twin %s)" % t)))
                elif a[0] != b[0]:
                    # an error for one order and success for the other
                    out.append((req, impl, reply, dict(agree=True, spec_ok=None, impl_oracle=False, concrete=True,
                                                       why="success/failure depends on parameter order (twin %s)" % t)))
        return out


PROP = C03()
