"""C03 — a whole-value reference yields the final rendered value at its path."""
from .params_base import ParamsProp, has_ref
from ..prng import Rng
from .. import genv as G
from .. import core

CLAUSES = [
    G.P({"a": "${b}", "b": "${c}", "c": {"x": 1, "y": [1, 2]}}),
    G.P({"t": {"n": 1, "b": True, "z": None, "s": "str", "l": [1], "m": {"k": "v"}},
         "r1": "${t:n}", "r2": "${t:b}", "r3": "${t:z}", "r4": "${t:s}", "r5": "${t:l}", "r6": "${t:m}", "r7": "${t}"}),
    G.P({"sel": "b", "t": {"a": 1, "b": {"c": 2}}, "r": "${t:${sel}}", "r2": "${t:${sel}:c}"}),
    G.P({"t": {"a": [1]}}, {"t": {"a": [2], "b": "x"}}, {"r": "${t:a}", "r2": "${t}"}),
    G.P({"t": {"a": "${u}"}, "u": {"deep": "${v}"}, "v": 7, "r": "${t:a:deep}"}),
    G.P({"r": "${t:a}"}, {"t": {"a": 1}}),
    G.P({"t": {"a": 1}, "r": "${t:nope}"}),
    G.P({"r": "${nope}"}),
    G.P({"t": 5, "r": "${t:a}"}),
    G.P({"t": [1, 2], "r": "${t:0}"}),
    G.P({"t": "${u}", "u": {"a": 1}, "r": "${t:a}"}),
    G.P({"t": {"a": 1}}, {"t": "${u}"}, {"u": {"b": 2}, "r": "${t:b}", "r2": "${t:a}"}),
    G.P({1: "one", "r": "${1}"}),
    G.P({"a": {"b": {"c": "${x}"}}, "x": "${y}", "y": [1, {"k": "${z}"}], "z": None, "r": "${a:b:c}"}),
]


class C03(ParamsProp):
    id = "C03"
    rule = ("op params with whole-value references built from the current tree (chains, fan-out, nested ${a:${b}} paths, "
            "references into layered and into referenced targets, every target kind, dangling paths); compared: rendered tree "
            "or error class + reference + missing key. Each random case is also run with its top-level entries permuted "
            "(implementation-only twin: same rendered data). Non-trivial = contains a whole-value reference and renders or "
            "fails with a lookup error; distinct by input hash.")

    def corpus(self):
        return [dict(c) for c in CLAUSES] + super().corpus()

    def cases(self, tier, seed):
        N = 1200 if tier == "quick" else 30000
        for i in range(N):
            r = Rng(seed, "C03", i)
            layers = G.shaped_stack(r, r.range(2, 6), r.range(1, 4), r.range(1, 3), r.choice([0, 0, 6]), p_stray=4, strs=["x", "y", "", "1", "a", "b"])
            G.add_refs(r, layers, r.range(1, 6), p_cyclic=4, p_dangling=6, p_embedded=10)
            c = {"op": "params", "layers": layers}
            yield c
            if i % 4 == 0:
                yield {"op": "params", "layers": G.clone_point_diamond(Rng(seed, "C03d", i))}
            if len(layers) == 1 and i % 2 == 0:
                # permuted twin
                perm = r.shuffle(layers[0]["m"])
                yield {"op": "params", "layers": [{"m": perm}], "twin_of": core.case_hash(c)}

    def nontrivial(self, req, impl, reply):
        return has_ref(req["layers"]) and isinstance(impl, dict) and (
            "ok" in (impl.get("rendered") or {}) or core.norm_result(impl.get("rendered"), True)[0] == "err")

    def post_check(self, results):
        """Order independence (implementation-only oracle): a permuted single layer renders
        to the same data."""
        out = []
        byhash = {}
        for (req, impl, reply) in results:
            if "twin_of" not in req:
                byhash[core.case_hash({k: v for k, v in req.items()})] = (req, impl)
        def sortrec(x):
            x = core.strip_flags(core.canon(x))
            if isinstance(x, dict) and "m" in x:
                return {"m": sorted(([sortk(k), sortrec(v)] for k, v in x["m"]), key=lambda e: repr(e[0]))}
            if isinstance(x, list):
                return [sortrec(v) for v in x]
            return x
        def sortk(k):
            return k
        for (req, impl, reply) in results:
            t = req.get("twin_of")
            if t and t in byhash:
                oreq, oimpl = byhash[t]
                a = core.norm_result(oimpl.get("rendered"), True)
                b = core.norm_result(impl.get("rendered"), True)
                if a[0] == "ok" and b[0] == "ok":
                    if sortrec(oimpl["rendered"]["ok"]) != sortrec(impl["rendered"]["ok"]):
                        out.append((req, impl, reply, dict(agree=True, spec_ok=None, impl_oracle=False, concrete=True,
                                                           why="rendered data depends on the order in which parameters are written (twin %s)" % t)))
                elif a[0] != b[0]:
                    # an error for one order and success for the other
                    out.append((req, impl, reply, dict(agree=True, spec_ok=None, impl_oracle=False, concrete=True,
                                                       why="success/failure depends on parameter order (twin %s)" % t)))
        return out


PROP = C03()
