"""C20 — configuration entry points agree and stay self-consistent."""
import re
from ..runner import Prop
from .inv_base import InvProp
from .. import geninv as GI
from ..prng import Rng
from .. import core
from .. import genv as G

PROBES = ["abc", "xb", "zzz", "missing.one", "a", "", "cls-x", "b.c", "addon x", "addonx", "legacy", "XB", "Abc", "LEGACY x", "CLS-y", "x b"]
GOOD_PATS = [".*", "^a", "b$", "^zzz$", "one", "^missing\\.one$", "cls-x", "^b\\.c$"]
# outside the modelled sub-language (judged on the implementation's own reports only): each compiles alone, but the
# two \\w{200} patterns exceed the regex crate's compiled-size limit as one set
RICH_PATS = [["^addon x$"], ["legacy#("], ["^a  b$", "x # y"], ["(?i)ABC", "^xb$"], ["\\w{200}", "a\\w{200}"], ["\\w{200}"], ["^\\w+$"], ["(?i)^ABC$"], ["^.{2}$", "\\d"], ["a\\w{200}", "\\w{200}", "^a"],
             # a flag written inside one pattern applies to that pattern only; a pattern that does not compile alone is rejected
             # even if it would compile as part of a longer expression
             ["(?i)^LEGACY", "^xb$", "^cls-"], ["(?x) a b c", "x b"], ["service\\", ".*missing.*"], ["^xb$", "(?i)abc"], ["a(", "b)"]]
BAD_PATS = ["(", "[a", "*"]


def match(pat, s):
    """The modelled regex sub-language, evaluated independently of Lean (python re agrees
    with the regex crate on these forms)."""
    return re.search(pat, s) is not None


def expect_probes(state):
    try:
        return [bool(state["ignore"]) and any(match(p, s) for p in state["patterns"]) for s in PROBES]
    except re.error:
        return "invalid"


def C(route, options=None, steps=None, ctor=None):
    d = {"op": "config", "route": route, "options": [[k, G.enc(v)] for k, v in (options or [])], "steps": steps or [], "probes": PROBES}
    if ctor is not None:
        d["ctor"] = ctor
    return d


CLAUSES = [
    C("file", [("nodes_uri", "mynodes"), ("classes_uri", "mycls"), ("ignore_class_notfound", True), ("ignore_class_notfound_regexp", ["^a", "b$"])]),
    C("opts", [("nodes_uri", "mynodes"), ("classes_uri", "mycls"), ("ignore_class_notfound", True), ("ignore_class_notfound_regexp", ["^a", "b$"])]),
    C("ctor", ctor={"nodes": "mynodes", "classes": "mycls", "ignore": True}),
    C("file", [("unknown_option", 1), ("storage_type", "yaml_fs"), ("compose_node_name", True), ("reclass_rs_compat_flags", ["compose-node-name-literal-dots", "bogus"])]),
    C("file", [("ignore_class_notfound", "yes")]), C("file", [("ignore_class_notfound", 1)]),
    C("opts", [("compose_node_name", "true")]), C("file", [("compose_node_name", None)]),
    C("file", [("ignore_class_notfound_regexp", None)]), C("opts", [("ignore_class_notfound_regexp", None)]),
    C("file", [("ignore_class_notfound", True), ("ignore_class_notfound_regexp", None)]), C("file", [("reclass_rs_compat_flags", None)]),
    C("file", [("ignore_class_notfound", None)]), C("file", [("nodes_uri", None)]),
    C("file", [("ignore_class_notfound_regexp", "^a")]), C("file", [("ignore_class_notfound_regexp", ["^a", 1])]),
    C("file", [("ignore_class_notfound_regexp", ["("])]), C("opts", [("ignore_class_notfound_regexp", ["^a", "[a"])]),
    C("file", [("reclass_rs_compat_flags", "x")]), C("file", [("reclass_rs_compat_flags", [1])]),
    C("file", [("ignore_class_notfound", True), ("ignore_class_notfound_regexp", [])]),
    # setter histories with failing steps (D14, fixed)
    C("file", [("ignore_class_notfound", True)], steps=[["set_patterns", ["^zzz$", "("]], ["set_patterns", ["^a"]], ["set_patterns", ["["[:1] + "a"]],
                                                         ["set_flag"], ["unset_flag"], ["set_flag"], ["clear_flags"], ["set_patterns", []]]),
    C("ctor", ctor={"ignore": True}, steps=[["set_patterns", ["("]], ["set_patterns", ["*"]], ["set_patterns", ["b$"]]]),
    C("ctor", ctor={"ignore": True}, steps=[["set_patterns", ["^a"]], ["set_patterns", ["\\w{200}", "a\\w{200}"]], ["set_patterns", ["\\w{200}"]], ["set_patterns", ["("]]]),
    C("ctor", ctor={"nodes": "x", "classes": "x"}), C("ctor", ctor={"nodes": "x", "classes": "x/y"}), C("ctor", ctor={"nodes": "a/../b", "classes": "./c"}),
    # D15 (repaired): a path option that YAML must quote is stored like the constructor stores it
    C("file", [("nodes_uri", "123")]),
]


def ctor_pair(nodes, classes, ignore, route):
    """The same three settings through the constructor and through options."""
    a = C("ctor", ctor={"nodes": nodes, "classes": classes, "ignore": ignore})
    b = C(route, [("nodes_uri", nodes), ("classes_uri", classes), ("ignore_class_notfound", ignore)])
    b["twin_of"] = core.case_hash(a)
    return [a, b]


def py_plain(v):
    """protocol-encoded option value -> plain JSON for the Python dict route (None if not expressible)"""
    if v is None or isinstance(v, (bool, str)):
        return v
    if isinstance(v, dict) and "i" in v:
        return int(v["i"])
    if isinstance(v, list):
        return [py_plain(x) for x in v]
    if isinstance(v, dict) and "m" in v:
        return {str(py_plain(k)): py_plain(x) for k, x in v["m"]}
    return None


def py_case(rust_case):
    c = {"op": "py_config", "py_options": {o[0]: py_plain(o[1]) for o in rust_case["options"]}, "ctor": {},
         "twin_of": core.case_hash(rust_case), "py_twin": True}
    return c


_INV = InvProp()
_INV.parts = ("nodes",)


def behaviour_cases(tier, seed):
    """Inventories with missing classes whose instance is reconfigured while live (pattern lists, flags), cloned, and
    built from config files with the keys in any order: reported settings and behaviour must agree."""
    from .c16 import PATS
    pats = [q for q in PATS if q is not None]
    for i in range(60 if tier == "quick" else 1500):
        r = Rng(seed, "C20:behaviour", i)
        cfg = {"ignore_class_notfound": True, "patterns": r.choice(pats)}
        c = GI.gen_inventory(r, n_classes=r.range(1, 4), shape=r.choice(["tree", "dag"]), n_nodes=r.range(1, 3), missing=2, cfg=cfg,
                             compose=r.chance(1, 2), node_dirs=r.chance(1, 2))
        FL = "compose-node-name-literal-dots"
        steps = []
        for _ in range(r.range(1, 4)):
            steps.append(r.choice([{"patterns": r.choice(pats)}, {"patterns": ["("]}, {"set_flag": FL}, {"unset_flag": FL}, {"clear_flags": 1},
                                   {"render_inventory": 1}, {"patterns": r.choice(pats)}]))
        c["lifecycle"] = steps
        if i % 3 == 0:
            opts = [["ignore_class_notfound", True], ["ignore_class_notfound_regexp", cfg["patterns"]], ["compose_node_name", c["config"].get("compose_node_name", False)]]
            c["config"]["file_options"] = r.shuffle(opts)
        yield c


class C20(Prop):
    id = "C20"
    serial = True
    rule = ("op config: option sets over all supported keys, unknown keys and wrong types through the file route "
            "(Config::new + load_from_file), the dict-like route (set_option fold + compile, as from_dict does) and the "
            "constructor, then setter histories of length <=8 on a live Reclass instance incl. failing pattern lists; compared "
            "after construction and after every step: reported directories, flags, patterns, and ignore decisions on 8 probe "
            "names; plus (implementation-only) reported patterns re-evaluated on the probes must predict the decisions, and the "
            "file and dict routes must give the same configuration. Non-trivial = >=2 options or >=2 steps; distinct by input hash.")

    def corpus(self):
        # unknown options are ignored whatever their (YAML-representable) value is, on every route
        unk = [{"op": "py_config", "py_options": o, "ctor": {}} for o in (
            {"unknown_key": None}, {"unknown_key": "x", "storage_type": None}, {"unknown_key": {"a": None, "b": [1, None]}},
            {"unknown_key": [1, 2.5, True, "s"], "ignore_class_notfound": True}, {"unknown_key": 7, "other": -1.5})]
        return unk + [dict(c) for c in CLAUSES] + ctor_pair("mynodes", "mycls", True, "file") + ctor_pair("cls-nodes", "cls", False, "file") + ctor_pair("inv", "inv.classes", True, "opts") + ctor_pair("a/b", "a/bc", False, "file") + ctor_pair("a/b", "a/b/c", False, "file") + ctor_pair("123", "true", False, "file") + super().corpus()

    def cases(self, tier, seed):
        yield from behaviour_cases(tier, seed)
        N = 400 if tier == "quick" else 10000
        for i in range(N):
            r = Rng(seed, "C20", i)
            opts = []
            for _ in range(r.range(0, 5)):
                k = r.weighted([("nodes_uri", 2), ("classes_uri", 2), ("ignore_class_notfound", 3), ("ignore_class_notfound_regexp", 4),
                                ("compose_node_name", 2), ("reclass_rs_compat_flags", 2), ("unknown_key", 2), ("storage_type", 1)])
                if k in ("nodes_uri", "classes_uri"):
                    v = r.choice(["n1", "c1", "sub/n", "mynodes", "x_y"])
                elif k in ("ignore_class_notfound", "compose_node_name"):
                    v = r.weighted([(True, 5), (False, 4), ("true", 1), (1, 1), (None, 1)])
                elif k == "ignore_class_notfound_regexp":
                    v = r.weighted([([r.choice(GOOD_PATS) for _ in range(r.range(0, 3))], 8), ([r.choice(GOOD_PATS), r.choice(BAD_PATS)], 2), ("^a", 1), ([1], 1)])
                elif k == "reclass_rs_compat_flags":
                    v = r.weighted([([r.choice(["compose-node-name-literal-dots", "compose_node_name_literal_dots", "ComposeNodeNameLiteralDots", "other"])], 6), ("x", 1), ([True], 1)])
                else:
                    v = r.choice([1, "x", [1], {"a": 1}])
                if any(o[0] == k for o in opts):
                    continue
                opts.append((k, v))
            # nodes and classes must not overlap for the instance to be created
            steps = []
            for _ in range(r.range(0, 8)):
                s = r.weighted([("set_patterns", 6), ("set_flag", 1), ("unset_flag", 1), ("clear_flags", 1)])
                if s == "set_patterns":
                    ps = [r.choice(GOOD_PATS) for _ in range(r.range(0, 3))]
                    if r.chance(30, 100):
                        ps.insert(r.below(len(ps) + 1), r.choice(BAD_PATS))
                    if r.chance(6, 100):
                        ps = list(r.choice(RICH_PATS))
                    steps.append([s, ps])
                else:
                    steps.append([s])
            route = r.choice(["file", "opts"])
            c = C(route, opts, steps)
            yield c
            if i % 8 == 5:
                rp = list(r.choice(RICH_PATS))
                o2 = [o for o in opts if o[0] not in ("ignore_class_notfound_regexp", "ignore_class_notfound")] + [("ignore_class_notfound", True), ("ignore_class_notfound_regexp", rp)]
                c2 = C(r.choice(["file", "opts"]), r.shuffle(o2), [["set_patterns", rp]] if r.chance(1, 2) else [])
                c2["rich_options"] = True
                yield c2
            if i % 4 == 0:
                yield from ctor_pair(r.choice(["n1", "mynodes", "sub/n", "x_y", "cls-nodes", "c1x", "mycls.d", "sub/c-n"]),
                                     r.choice(["c1", "mycls", "sub/c", "cls"]), r.chance(1, 2), r.choice(["file", "opts"]))
            if i % 3 == 0:
                base = C("opts", opts, [])
                yield base
                yield py_case(base)
                if i % 9 == 0:
                    extra = py_case(base)
                    extra.pop("twin_of"); extra.pop("py_twin")
                    extra["py_options"][r.choice(["unknown_key", "zzz", "storage_type"])] = r.choice([None, {"k": None}, [None], 3, 2.5, "s", [], {}])
                    yield extra
            if not steps or i % 2 == 0:
                t = C("opts" if route == "file" else "file", opts, [])
                t["twin_of"] = core.case_hash(C(route, opts, []))
                yield C(route, opts, [])
                yield t

    def judge(self, req, impl, reply):
        if req.get("op") == "inventory":
            return _INV.judge(req, impl, reply)
        if req.get("op") == "py_config":
            if not isinstance(impl, dict) or "dict" not in impl:
                return dict(agree=False, spec_ok=None, why="harness rejected: %s" % str(impl)[:200], skip=True)
            why = []
            for route in ("dict", "file", "ctor"):
                r = impl.get(route) or {}
                if "exc" in r and r["exc"] != "ValueError":
                    why.append("%s route: failure surfaces as %s (%s), not ValueError" % (route, r["exc"], r.get("msg", "")[:80]))
            d, f = impl["dict"], impl["file"]
            if ("ok" in d) != ("ok" in f):
                why.append("dict route %s, file route %s for the same options" % ("succeeds" if "ok" in d else "fails: " + d.get("msg", "")[:80],
                                                                               "succeeds" if "ok" in f else "fails: " + f.get("msg", "")[:80]))
            elif "ok" in d and d["ok"] != f["ok"]:
                why.append("dict and file routes give different configurations: %s vs %s" % (d["ok"], f["ok"]))
            return dict(agree=True, spec_ok=None, impl_oracle=(False if why else None), concrete=bool(why), why="; ".join(why))
        if (req.get("rich_options") or ("bad" in reply and "outside the modelled regex" in str(reply["bad"]))) and isinstance(impl, dict) and "build" in impl:
            # patterns the model does not cover: only the statement's self-consistency clause is evaluated, on the
            # implementation's own reports (a failed call must leave reported = effective)
            why, oracle = [], None
            states = []
            if "ok" in (impl.get("build") or {}):
                states.append(("construction", impl["build"]["ok"]))
            for k, h in enumerate(impl.get("history") or []):
                states.append(("step %d" % k, h["state"]))
            for name, st in states:
                exp = expect_probes(st)
                if exp == "invalid" or (exp is not None and exp != st["probes"]):
                    oracle = False
                    why.append("%s: reports ignore=%s patterns=%s but decides %s on the probes (reported settings predict %s)" % (
                        name, st["ignore"], [q[:24] for q in st["patterns"]], st["probes"], exp))
                    break
            return dict(agree=True, spec_ok=None, impl_oracle=oracle, why="; ".join(why), concrete=(oracle is False))
        if "bad" in reply:
            return dict(agree=False, spec_ok=None, why="model rejected: %s" % reply["bad"], skip=True)
        if not isinstance(impl, dict) or ("bad" in impl and "build" not in impl):
            return dict(agree=False, spec_ok=None, why="harness rejected: %s" % impl, skip=True)
        if "panic" in impl or "crash" in impl:
            return dict(agree=False, spec_ok=None, why="implementation panicked/crashed: %s" % impl, concrete=True)
        model = reply["model"]
        why = []
        bi = core.norm_result(impl.get("build"), True)
        bm = core.norm_result(model.get("build"), False)
        if bi[0] != bm[0]:
            why.append("construction: implementation %s, model %s" % (bi[0], bm[0]))
        elif bi[0] == "ok" and bi != bm:
            why.append("configuration after construction differs")
        hi, hm = impl.get("history"), model.get("history")
        # the model answers "failed, unchanged" for pattern lists outside its regex sub-language: from the first such
        # step on only the implementation-only oracle below applies
        cut = next((k for k, st in enumerate(req.get("steps") or []) if st[0] == "set_patterns" and any(list(st[1]) == list(x) for x in RICH_PATS)), None)
        if cut is not None and hi is not None and hm is not None:
            hi, hm = hi[:cut], hm[:cut]
        if bi[0] == "ok" and hi is not None and hm is not None and hi != hm:
            for k, (a, b) in enumerate(zip(hi, hm)):
                if a != b:
                    why.append("after step %d (%s): implementation %s, model %s" % (k, req["steps"][k][0], a, b))
                    break
        oracle = None
        states = []
        if "ok" in (impl.get("build") or {}):
            states.append(("construction", impl["build"]["ok"]))
        for k, h in enumerate(impl.get("history") or []):
            states.append(("step %d" % k, h["state"]))
        for name, st in states:
            exp = expect_probes(st)
            if exp == "invalid":
                oracle = False
                why.append("%s: reports the pattern list %s, which does not compile, so it cannot be what decides %s" % (name, st["patterns"], st["probes"]))
                break
            if exp is not None and exp != st["probes"]:
                oracle = False
                why.append("%s: reports ignore=%s patterns=%s but decides %s on the probes (reported settings predict %s)" % (
                    name, st["ignore"], st["patterns"], st["probes"], exp))
                break
        agree = not [w for w in why if not w.startswith(("construction:", "step")) or True] if False else (not why or oracle is False and len(why) == 1)
        agree = not [w for w in why if "reports ignore" not in w]
        return dict(agree=agree, spec_ok=None, impl_oracle=oracle, why="; ".join(why), concrete=(oracle is False))

    def post_check(self, results):
        out = []
        byhash = {}
        for (req, impl, reply) in results:
            if "twin_of" not in req:
                byhash[core.case_hash(req)] = impl
        for (req, impl, reply) in results:
            t = req.get("twin_of")
            if t and t in byhash and isinstance(impl, dict) and req.get("py_twin"):
                # the Python dict route against the Rust set_option route (which the model checks)
                a = core.norm_result(byhash[t].get("build"), True)
                d = impl.get("dict") or {}
                if (a[0] == "ok") != ("ok" in d):
                    out.append((req, impl, reply, dict(agree=True, spec_ok=None, impl_oracle=False, concrete=True,
                                                       why="Config.from_dict %s where the same options through set_option %s" % (
                                                           "succeeds" if "ok" in d else "fails (%s)" % d.get("msg", "")[:80], a[0]))))
                elif a[0] == "ok":
                    fa = {k: a[1][k] for k in ("nodes_path", "classes_path", "ignore", "compose", "patterns", "literal_dots")}
                    if fa != d["ok"]:
                        out.append((req, impl, reply, dict(agree=True, spec_ok=None, impl_oracle=False, concrete=True,
                                                           why="Config.from_dict gives %s, set_option route %s" % (d["ok"], fa))))
                continue
            if t and t in byhash and isinstance(impl, dict):
                a = core.norm_result(byhash[t].get("build"), True)
                b = core.norm_result(impl.get("build"), True)
                if a[0] != b[0] or (a[0] == "ok" and a != b):
                    out.append((req, impl, reply, dict(agree=True, spec_ok=None, impl_oracle=False, concrete=True,
                                                       why="the same options give different configurations through two entry points (%s): %s vs %s" % (req.get("route") + " vs twin", a, b))))
        return out

    def nontrivial(self, req, impl, reply):
        if req.get("op") == "inventory":
            return isinstance(impl, dict) and isinstance(impl.get("lifecycle"), dict)
        if req.get("op") == "py_config":
            return len(req.get("py_options", {})) >= 2
        return len(req.get("options", [])) >= 2 or len(req.get("steps", [])) >= 2

    def tags(self, req, impl, reply):
        if req.get("op") == "inventory":
            return ["route=live-instance"] + _INV.tags(req, impl, reply)[:3]
        if req.get("op") == "py_config":
            return ["route=python", "pydict:" + ("ok" if "ok" in (impl or {}).get("dict", {}) else "exc")]
        t = ["route=" + req.get("route", "?")]
        if isinstance(impl, dict):
            b = core.norm_result(impl.get("build"), True)
            t.append("build:" + b[0])
            for h in impl.get("history") or []:
                t.append("step:" + ("ok" if h["ok"] else "failed"))
        return t

    def matches_known(self, finding, req, impl, reply):
        if finding.get("id") == "D16":
            # the constructor rejects overlapping nodes/classes directories, the option routes accept them
            o = {x[0]: x[1] for x in req.get("options", []) if isinstance(x[1], str)}
            n, c = o.get("nodes_uri"), o.get("classes_uri")
            if req.get("twin_of") and n and c:
                a, b = n.split("/"), c.split("/")
                return a[:len(b)] == b or b[:len(a)] == a
            return False
        return False


PROP = C20()
