"""C04 — a reference used as a layer merges like the inline value."""
from .params_base import ParamsProp, has_ref
from ..prng import Rng
from .. import genv as G
from .. import core

CLAUSES = [
    G.P({"base": {"a": 1, "l": [1]}, "k": {"a": 0, "z": 9}}, {"k": "${base}"}, {"k": {"l": [2], "b": 2}}),
    G.P({"lst": [1, 2], "k": [0]}, {"k": "${lst}"}, {"k": [3]}),
    G.P({"sc": 5, "k": 1}, {"k": "${sc}"}),
    G.P({"base": {"a": 1}}, {"k": "${base}"}, {"k": {"a": [1]}}),
    G.P({"p": {"k": {"x": 1}}, "base": {"y": 2}}, {"p": {"k": "${base}"}}, {"p": {"k": {"z": 3}}}),
    G.P({"b1": {"a": {"q": 1}}, "b2": "${b1}"}, {"k": {"a": {"r": 2}}}, {"k": "${b2}"}),
    G.P({"base": {"=c": 1}}, {"k": "${base}"}, {"k": {"c": 2}}),
    G.P({"x": {"~k": [1]}}, {"x": {"k": [2]}}, {"y": {"k": [9]}}, {"y": "${x}"}),
    G.P({"base": None, "k": {"a": 1}}, {"k": "${base}"}, {"k": {"b": 2}}),
    G.P({"k": "${missing}"}, {"k": {"a": 1}}),
    G.P({"m1": {"a": 1}, "m2": {"b": 2}, "k": "${m1}"}, {"k": "${m2}"}),
]


def multi_ref_layers(req):
    seen = {}
    for L in req["layers"]:
        for k, v in L["m"]:
            seen.setdefault(repr(G.strip_marker(k)), []).append(v)
    return any(len(vs) >= 2 and any(isinstance(v, str) and v.startswith("${") and v.endswith("}") for v in vs) for vs in seen.values())


class C04(ParamsProp):
    id = "C04"
    rule = ("op params on stacks where a key is defined by >=2 layers and some layers are whole-value references to mappings, "
            "lists or scalars (targets themselves layered or referencing further), at depth <=3; compared: merged tree (layer "
            "lists), rendered tree incl. flags, error class + parameter. Non-trivial = a multiply-defined key with a reference "
            "layer; distinct by input hash.")

    def corpus(self):
        return [dict(c) for c in CLAUSES] + super().corpus()

    families = {"deep_ref_layers": 150, "repeated_layers": 60, "both_flags": 40, "many_refs": 50, "many_layers": 20, "same_value_layers": 40, "dup_in_one_mapping": 60, "ref_layer_self_lookup": 60}

    def base_cases(self, tier, seed):
        N = 1200 if tier == "quick" else 30000
        for i in range(N):
            r = Rng(seed, "C04", i)
            ntops = r.range(2, 5)
            layers = G.shaped_stack(r, ntops, r.range(2, 5), r.range(1, 3), r.choice([0, 0, 8]), p_stray=5, strs=["x", "y", "1", "a"])
            # turn some layer values of the higher-ranked keys into references to lower-ranked keys
            tops = G.TOPS[:ntops]
            for L in layers[1:]:
                for e in L["m"]:
                    t = G.strip_marker(e[0])
                    if t in tops and tops.index(t) > 0 and r.chance(45, 100):
                        tgt = tops[r.below(tops.index(t))]
                        e[1] = "${%s}" % tgt
                    elif G.is_map(e[1]) and e[1]["m"] and r.chance(20, 100) and t in tops and tops.index(t) > 0:
                        sub = r.choice(e[1]["m"])
                        sub[1] = "${%s}" % tops[r.below(tops.index(t))]
            yield {"op": "params", "layers": layers}
            if i % 3 == 0:
                yield {"op": "params", "layers": G.clone_point_diamond(Rng(seed, "C04d", i))}

    def nontrivial(self, req, impl, reply):
        return multi_ref_layers(req)


PROP = C04()
