"""SplitMix64: the single source of randomness. A case is determined by (seed, property, index)."""
M = (1 << 64) - 1

class Rng:
    def __init__(self, *keys):
        s = 0x9E3779B97F4A7C15
        for k in keys:
            if isinstance(k, str):
                k = int.from_bytes(k.encode(), "little") & M
            s = ((s ^ (k & M)) * 0xBF58476D1CE4E5B9) & M
            s ^= s >> 29
        self.s = s

    def next(self):
        self.s = (self.s + 0x9E3779B97F4A7C15) & M
        z = self.s
        z = ((z ^ (z >> 30)) * 0xBF58476D1CE4E5B9) & M
        z = ((z ^ (z >> 27)) * 0x94D049BB133111EB) & M
        return z ^ (z >> 31)

    def below(self, n):
        return self.next() % n if n > 0 else 0

    def range(self, a, b):
        """inclusive"""
        return a + self.below(b - a + 1)

    def chance(self, num, den):
        return self.below(den) < num

    def choice(self, xs):
        return xs[self.below(len(xs))]

    def weighted(self, pairs):
        tot = sum(w for _, w in pairs)
        r = self.below(tot)
        for x, w in pairs:
            if r < w:
                return x
            r -= w
        return pairs[-1][0]

    def shuffle(self, xs):
        xs = list(xs)
        for i in range(len(xs) - 1, 0, -1):
            j = self.below(i + 1)
            xs[i], xs[j] = xs[j], xs[i]
        return xs
