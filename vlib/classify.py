"""Map implementation error messages to the model's small error vocabulary.
Only the class and the entities a property names are kept; wording is not compared."""
import re

def key_of_display(t):
    t = t.strip()
    if len(t) >= 2 and t[0] == '"' and t[-1] == '"':
        return {"s": t[1:-1]}
    if len(t) >= 2 and t[0] == '"' and t.rfind('"') > 0:
        # context appended after the quoted key ("k" (in file ...)): the key ends at the last quote
        return {"s": t[1:t.rfind('"')]}
    if re.match(r"^(true|false|Null|-?\d+)\s+\S", t):
        t = t.split()[0]
    if t == "true":
        return True
    if t == "false":
        return False
    if t == "Null":
        return None
    if re.fullmatch(r"-?\d+", t):
        return {"i": t}
    return {"f": [t, ""]}

PREFIXES = [
    "While resolving references: ",
    "Error while discovering nodes: ",
    "Error while discovering classes: ",
]

def classify(msg):
    m0 = msg
    changed = True
    while changed:
        changed = False
        for p in PREFIXES:
            if msg.startswith(p):
                msg = msg[len(p):]
                changed = True
    m = re.match(r"^Error rendering node ([^:]*): (.*)$", msg, re.S)
    if m:
        return ["nodeFailed", m.group(1), classify(m.group(2))]
    m = re.match(r"^Deserializing ([^:]*): (.*)$", msg, re.S)
    if m:
        # a class file that parses as YAML but cannot be decoded (constant written twice, tagged value) fails with
        # the decoder's own error behind this prefix; everything else is a file-level failure
        inner = classify(m.group(2))
        if inner[0] in ("constKey", "yamlTagged"):
            return inner
        return ["io", m.group(2)]
    if msg.startswith("Detected reference loop"):
        return ["loop"]
    m = re.match(r"^Token resolution exceeded recursion depth of (\d+) for parameter '(.*)'\. We've seen", msg, re.S)
    if m:
        return ["depth", m.group(2)]
    m = re.match(r"^lookup error for reference '\$\{(.*)\}' in parameter '(.*)': key '(.*)' not found$", msg, re.S)
    if m:
        return ["missingKey", m.group(1), m.group(3), m.group(2)]
    m = re.match(r"^While looking up key '(.*)' in reference '\$\{(.*)\}' for parameter '(.*)': (.*)$", msg, re.S)
    if m:
        return ["lookupInto", m.group(2), m.group(1), m.group(3)]
    m = re.match(r"^In (.*): Can't merge (Value::\w+) over (\S+)$", msg, re.S)
    if m:
        return ["mergeConflict", m.group(1), m.group(2), m.group(3)]
    m = re.match(r"^Can't overwrite constant key (.*)$", msg, re.S)
    if m:
        return ["constKey", key_of_display(m.group(1))]
    m = re.match(r"^Error while parsing ref: Error parsing reference '(.*)'$", msg, re.S)
    if m:
        return ["parse", m.group(1)]
    if msg.startswith("Error while parsing ref:"):
        return ["parse", ""]
    m = re.match(r"^In (.*): Can't flatten unparsed String", msg, re.S)
    if m:
        return ["flattenString", m.group(1)]
    m = re.match(r"^Value::raw_string isn't implemented for (\S+)$", msg)
    if m:
        return ["rawStringOf", m.group(1)]
    m = re.match(r"^Class (.*) not found$", msg, re.S)
    if m:
        return ["classNotFound", m.group(1)]
    m = re.match(r"^Unknown node (.*)$", msg, re.S)
    if m:
        return ["unknownNode", m.group(1)]
    m = re.match(r"^Definition of (node|class) '(.*)' in '(.*)' collides with definition in '(.*)'\. ", msg, re.S)
    if m:
        return ["collision", m.group(2), m.group(3), m.group(4)]
    m = re.match(r"^Can't render (\S+) with itself", msg)
    if m:
        return ["notMapping", m.group(1)]
    if msg.startswith("Tagged YAML values are not supported"):
        return ["yamlTagged"]
    if msg.startswith("Can't extract first path segment") or msg.startswith("Unable to extract last segment") or msg.startswith("Empty node name"):
        return ["metaParts"]
    return ["other", m0]

# which positions of a classified error are compared, per class (the entities the
# properties say an error must name)
COMPARED = {
    "loop": [],
    "depth": [],
    "missingKey": [1, 2],
    "lookupInto": [1, 2],
    "mergeConflict": [1],
    "constKey": [1],
    "parse": [],
    "flattenString": [],
    "rawStringOf": [],
    "classNotFound": [1],
    "unknownNode": [1],
    "collision": [1],
    "notMapping": [],
    "nodeFailed": [1],
    "io": [],
    "other": [],
    "config": [],
    "metaParts": [],
    "yamlTagged": [],
}

def err_projection(e):
    cls = e[0]
    if cls == "other":
        cls = "io"   # file-level / library-level failures are one class
    idx = COMPARED.get(cls)
    if idx is None:
        return e
    return [cls] + [e[i] for i in idx]
