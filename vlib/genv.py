"""Type-directed generators for parameter trees, layer stacks and references.

Protocol encoding: str -> "text"; int -> {"i": "n"}; float -> {"f": [yamlText, ""]};
map -> {"m": [[k, v], ...]}; list -> [..]; null/bool as JSON."""

INT_POOL = ["0", "1", "-1", "2", "42", "-7", "9223372036854775807", "-9223372036854775808",
            "18446744073709551615", "9007199254740993", "1000000"]
FLOAT_POOL = ["1.5", "-0.25", "1e+30", "3.0", ".nan", ".inf", "-.inf", "0.1", "0.00005", "1e-5", "9.9e-5", "0.0001", "1e-7", "1e15", "1e16", "1e17",
              "1.0e21", "-0.0", "123456789.125", "5e-324", "1.7976931348623157e308", "0.30000000000000004", "2.5e-10", "100000.0", "1e6", "-1e-6"]
STR_POOL = ["x", "foo", "bar baz", "", "he\"llo", "back\\slash", "line\nbreak", "tab\there", "é✓",
            "true", "123", "a:b", "{j}", "[1]", "~", "=", "None", "ctl\u0001", "$", "}", "{", "a$b"]
KEYS = ["a", "b", "c", "d", "e"]
TOPS = ["k0", "k1", "k2", "k3", "k4", "k5"]


def I(n):
    return {"i": str(n)}


def M(pairs):
    return {"m": [[k, v] for k, v in pairs]}


def is_map(v):
    return isinstance(v, dict) and "m" in v


def scalar(r, strs=STR_POOL):
    k = r.weighted([("null", 2), ("bool", 2), ("int", 4), ("float", 1), ("str", 6)])
    if k == "null":
        return None
    if k == "bool":
        return r.chance(1, 2)
    if k == "int":
        return {"i": r.choice(INT_POOL)}
    if k == "float":
        return {"f": [r.choice(FLOAT_POOL), ""]}
    return r.choice(strs)


def marker(r, p_marker):
    """Return a marker prefix for a key ('' mostly)."""
    if r.chance(p_marker, 100):
        return r.weighted([("=", 5), ("~", 5), ("~=", 1), ("=~", 1), ("==", 1)])
    return ""


def key(r, pool=KEYS, p_marker=0, p_odd=2):
    if r.chance(p_odd, 100):
        return r.choice([{"i": "1"}, True, None, {"i": "0"}, False, {"i": "9223372036854775808"}, {"i": "18446744073709551615"},
                         {"i": "-9223372036854775808"}, {"i": "9223372036854775807"}, {"i": "42"},
                         "", "~", "=", "a ", " a", "b\t", "a b", "~ ", "= a"])
    return marker(r, p_marker) + r.choice(pool)


def value(r, depth, p_marker=0, kinds=None, strs=STR_POOL):
    """Reference-free value of nesting depth <= depth."""
    if depth <= 0:
        return scalar(r, strs)
    k = r.weighted(kinds or [("scalar", 5), ("list", 3), ("map", 4)])
    if k == "scalar":
        return scalar(r, strs)
    if k == "list":
        return [value(r, depth - 1, p_marker, kinds, strs) for _ in range(r.range(0, 3))]
    n = r.range(0, 3)
    seen = set()
    pairs = []
    for _ in range(n):
        kk = key(r, KEYS, p_marker)
        tag = repr(kk)
        if tag in seen:
            continue
        seen.add(tag)
        pairs.append([kk, value(r, depth - 1, p_marker, kinds, strs)])
    return {"m": pairs}


def layer(r, tops, depth, p_marker, p_present=60, strs=STR_POOL):
    pairs = []
    for t in tops:
        if r.chance(p_present, 100):
            pairs.append([marker(r, p_marker) + t, value(r, depth, p_marker, strs=strs)])
    return {"m": pairs}


def shaped(r, shape, depth, p_marker, p_stray, strs):
    """A value following `shape` (so that layers of one key mostly merge), with a
    controlled fraction of strays (null, or a value of another kind)."""
    if r.chance(p_stray, 100):
        return r.choice([None, None, value(r, 1, p_marker, strs=strs)])
    if shape[0] == "scalar":
        return scalar(r, strs)
    if shape[0] == "list":
        return [shaped(r, shape[1], depth - 1, p_marker, p_stray, strs) for _ in range(r.range(0, 2))]
    pairs = []
    for k, sub in shape[1]:
        if r.chance(70, 100):
            pairs.append([marker(r, p_marker) + k, shaped(r, sub, depth - 1, p_marker, p_stray, strs)])
    return {"m": pairs}


def shape(r, depth):
    if depth <= 0:
        return ("scalar",)
    k = r.weighted([("scalar", 4), ("list", 3), ("map", 5)])
    if k == "scalar":
        return ("scalar",)
    if k == "list":
        return ("list", shape(r, depth - 1))
    ks = r.shuffle(KEYS)[: r.range(1, 3)]
    return ("map", [(kk, shape(r, depth - 1)) for kk in ks])


def shaped_stack(r, ntops, nlayers, depth, p_marker, p_stray=8, strs=STR_POOL, p_present=70):
    """Layers whose values for one key follow one shape."""
    tops = TOPS[:ntops]
    shapes = {t: shape(r, depth) for t in tops}
    layers = []
    for _ in range(nlayers):
        pairs = []
        for t in tops:
            if r.chance(p_present, 100):
                pairs.append([marker(r, p_marker) + t, shaped(r, shapes[t], depth, p_marker, p_stray, strs)])
        layers.append({"m": pairs})
    return layers


def strip_marker(k):
    if isinstance(k, str) and k[:1] in ("=", "~"):
        return k[1:]
    return k


def paths_of(v, prefix, out, maxdepth=3):
    """Collect reference paths (lists of string segments) into mapping values."""
    if is_map(v) and maxdepth > 0:
        for k, x in v["m"]:
            k = strip_marker(k)
            if isinstance(k, str) and k and ":" not in k and "$" not in k and "}" not in k and "{" not in k:
                p = prefix + [k]
                out.append(p)
                paths_of(x, p, out, maxdepth - 1)


def ref_text(r, path, selectors):
    """`${a:b:c}`; with some probability one non-first segment becomes a nested reference to
    a selector key whose value is that segment."""
    segs = list(path)
    if len(segs) >= 2 and r.chance(20, 100):
        i = r.range(1, len(segs) - 1)
        name = "sel%d" % len(selectors)
        selectors.append((name, segs[i]))
        segs[i] = "${%s}" % name
    return "${" + ":".join(segs) + "}"


def add_refs(r, layers, n_refs, p_cyclic=8, p_dangling=5, p_embedded=30, p_layer=30):
    """Sprinkle references into a stack of layers (in place). Top-level keys are ranked by
    their index in TOPS; by default a reference placed under key k_i targets a path under
    k_j with j < i, so the graph is acyclic; a controlled fraction is unconstrained
    (possibly cyclic) or dangling."""
    selectors = []
    bytop = {}
    for L in layers:
        for k, v in L["m"]:
            t = strip_marker(k)
            if isinstance(t, str):
                ps = bytop.setdefault(t, [[t]])
                paths_of(v, [t], ps)
    tops = [t for t in TOPS if t in bytop]
    if not tops:
        return
    for _ in range(n_refs):
        L = r.choice(layers)
        if not L["m"]:
            continue
        ei = r.below(len(L["m"]))
        k, v = L["m"][ei]
        t = strip_marker(k)
        if t not in TOPS:
            continue
        rank = TOPS.index(t)
        mode = r.weighted([("acyclic", 100 - p_cyclic - p_dangling), ("any", p_cyclic), ("dangling", p_dangling)])
        if mode == "acyclic":
            cands = [x for x in tops if TOPS.index(x) < rank]
            if not cands:
                continue
            path = r.choice(bytop[r.choice(cands)])
        elif mode == "any":
            path = r.choice(bytop[r.choice(tops)])
        else:
            path = r.choice(bytop[r.choice(tops)]) + ["nope"]
        ref = ref_text(r, path, selectors)
        if r.chance(p_embedded, 100):
            ref = r.choice(["pre-", "", "x", "$", "$5 for ", "a$b ", "$$", "\\$[q] ", "cd $HOME && "]) + ref + r.choice(["-post", "", "${%s}" % ":".join(r.choice(bytop[r.choice(tops)])) if r.chance(1, 3) and mode != "acyclic" else "y"])
        place_ref(r, L, ei, ref, p_layer)
    if selectors:
        layers[0]["m"] = [[n, s] for n, s in selectors] + layers[0]["m"]


def place_ref(r, L, ei, ref, p_layer):
    """Put `ref` somewhere inside entry ei of layer L: as the whole value, as a list element,
    as a mapping value, at depth."""
    k, v = L["m"][ei]

    def put(v, depth):
        if isinstance(v, list) and v and r.chance(60, 100) and depth < 3:
            i = r.below(len(v))
            v = list(v)
            v[i] = put(v[i], depth + 1)
            return v
        if isinstance(v, list) and r.chance(40, 100):
            return v + [ref]
        if is_map(v) and v["m"] and r.chance(70, 100) and depth < 3:
            i = r.below(len(v["m"]))
            m = [list(e) for e in v["m"]]
            m[i][1] = put(m[i][1], depth + 1)
            return {"m": m}
        if is_map(v) and r.chance(30, 100):
            return {"m": [list(e) for e in v["m"]] + [["r", ref]]}
        return ref
    L["m"][ei] = [k, put(v, 0)]


def enc(v):
    """Python literal -> protocol YAML encoding (dict keeps insertion order; keys may be
    str/int/bool/None)."""
    if isinstance(v, bool) or v is None or isinstance(v, str):
        return v
    if isinstance(v, int):
        return {"i": str(v)}
    if isinstance(v, float):
        return {"f": [repr(v), ""]}
    if isinstance(v, list):
        return [enc(x) for x in v]
    if isinstance(v, dict):
        return {"m": [[enc(k), enc(x)] for k, x in v.items()]}
    raise ValueError(v)


def P(*layers):
    return {"op": "params", "layers": [enc(l) for l in layers]}



def clone_point_diamond(r):
    """Acyclic sharing placed at each point where the evaluator copies its resolution state
    (list elements, mapping values, layers of a key, layers met during a path lookup, pieces of
    a string, nested path pieces): the same target reached twice, directly or through aliases.
    Returns a list of layers."""
    tgt_kind = r.choice(["map", "list", "scalar"])
    tgt = {"map": M([["k", "v"], ["n", I(1)]]), "list": ["x"], "scalar": "s"}[tgt_kind]
    base = [["common", tgt]]
    # two routes to the target: direct or via aliases of length 0-2
    def route(name):
        n = r.range(0, 2)
        prev = "common"
        out = []
        for i in range(n):
            a = "%s%d" % (name, i)
            out.append([a, "${%s}" % prev])
            prev = a
        return out, "${%s}" % prev
    e1, r1 = route("a")
    e2, r2 = route("b")
    where = r.choice(["list", "mapvals", "layers", "path_layers", "pieces", "nested_path", "layers3", "list_in_layers", "whole_nested", "whole_nested"])
    L1 = M(base + e1 + e2)
    if where == "list":
        return [M(L1["m"] + [["t", [r1, r2, r1]]])]
    if where == "mapvals":
        return [M(L1["m"] + [["t", M([["p", r1], ["q", r2], ["z", M([["deep", r1]])]])]])]
    if where == "layers":
        if tgt_kind == "scalar":
            return [M(L1["m"] + [["t", r1]]), M([["t", r2]])]
        return [M(L1["m"] + [["t", r1]]), M([["t", r2]]), M([["t", r1]])]
    if where == "layers3":
        return [M(L1["m"] + [["p", M([["t", r1]])]]), M([["p", M([["t", r2]])]]), M([["u", "${p:t}"]])]
    if where == "path_layers":
        sub = "k" if tgt_kind == "map" else None
        layers = [M(L1["m"] + [["t", r1]]), M([["t", r2]])]
        if sub:
            layers.append(M([["u", "${t:%s}" % sub], ["w", "x-${t:%s}" % sub]]))
        else:
            layers.append(M([["u", "${t}"]]))
        return layers
    if where == "pieces":
        if tgt_kind == "scalar":
            return [M(L1["m"] + [["t", "%s-%s-%s" % (r1, r2, r1)]])]
        return [M(L1["m"] + [["t", "%s%s" % (r1, r2)]])]
    if where == "nested_path":
        return [M([["sel", "k"], ["sel2", "${sel}"], ["common", M([["k", "v"]])], ["t", "${common:${sel}}"], ["u", "${common:${sel2}}"],
                   ["w", ["${common:${sel}}", "${common:${sel}}"]]])]
    if where == "whole_nested":
        # a path that is itself one nested reference, whose selected value mentions the selector again
        inner = r.choice(["${sel}", "x-${sel}", ["${sel}"], M([["again", "${sel}"]])])
        layers = [M([["sel", "tgt"], ["sel2", "${sel}"], ["tgt", M([["label", inner], ["k", "v"]])],
                     ["t", "${${sel}}"], ["u", ["${${sel}}", "${${sel2}}"]], ["w", "${${sel}:k}"], ["e", "pre-${${sel}:k}-${sel}"]])]
        if r.chance(1, 2):
            layers.append(M([["t", "${${sel}}"]]))
        return layers
    # list_in_layers
    return [M(L1["m"] + [["t", [r1]]]), M([["t", [r2, r1]]])]
