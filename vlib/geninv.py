"""Generators for whole inventories (directory trees with classes and nodes)."""
from . import genv as G

CLASS_DIRS = [[], ["d1"], ["d1", "d2"], ["e1"], ["d1", "d2", "d3"]]
DOTTED_CLASS_DIRS = [[], ["r-1.2"], ["r-1.2", "eu"], ["d1", "v.2"], ["d1"], ["r-1"]]


def cls_file(path_segs, ext="yml"):
    return "classes/" + "/".join(path_segs) + "." + ext


def class_body(r, name, includes, p_apps=60, extra_params=None):
    """Every class appends its own name to `order`, overrides `last`, contributes to a
    nested mapping and (maybe) to applications, so that merge order is observable."""
    params = [["order", [name]], ["last", name], ["m", G.M([[name.replace(".", "_"), G.I(1)], ["who", name]])]]
    if extra_params:
        params += extra_params
    body = {"classes": list(includes), "parameters": G.M(params)}
    if r.chance(p_apps, 100):
        apps = [r.choice(["app_a", "app_b", "app_c", "~app_a", "~app_b", "app_" + name.replace(".", "_")]) for _ in range(r.range(1, 3))]
        body["applications"] = apps
    return body


def gen_graph(r, n, shape):
    """Return dict name -> list of included names over classes c0..c{n-1} (absolute names)."""
    names = ["c%d" % i for i in range(n)]
    inc = {x: [] for x in names}
    if shape == "tree":
        for i in range(1, n):
            inc[names[r.below(i)]].append(names[i])
    elif shape == "dag":
        for i in range(n):
            for j in range(i + 1, n):
                if r.chance(40, 100):
                    inc[names[i]].append(names[j])
    elif shape == "cyclic":
        for i in range(n):
            for j in range(n):
                if r.chance(30, 100):
                    inc[names[i]].append(names[j])
    elif shape == "chain":
        for i in range(n - 1):
            inc[names[i]].append(names[i + 1])
    for x in names:
        if inc[x] and r.chance(25, 100):
            inc[x] = r.shuffle(inc[x])
        if inc[x] and r.chance(15, 100):
            inc[x].append(r.choice(inc[x]))  # repeated entry
    return names, inc


def place(r, names, nested):
    """Assign each class a directory (-> dotted absolute name)."""
    loc = {}
    dirs = DOTTED_CLASS_DIRS if nested == "dotted" else CLASS_DIRS
    for x in names:
        d = r.choice(dirs) if nested else []
        loc[x] = list(d)
    return loc


def dotted(loc, x):
    return ".".join(loc[x] + [x])


def relative_name(r, from_dir, to_dir, to_name):
    """A relative spelling (leading dots) of class to_dir/to_name as seen from a class in
    from_dir, or None if not expressible."""
    # common prefix
    k = 0
    while k < len(from_dir) and k < len(to_dir) and from_dir[k] == to_dir[k]:
        k += 1
    ups = len(from_dir) - k
    return "." * (ups + 1) + ".".join(to_dir[k:] + [to_name])


def gen_inventory(r, n_classes=None, shape=None, nested=False, relative=0, n_nodes=1, missing=0,
                  refnames=0, compose=False, cfg=None, node_dirs=False, fail_nodes=0, init_classes=0,
                  param_refs=0):
    n = n_classes if n_classes is not None else r.range(1, 6)
    shape = shape or r.choice(["tree", "dag", "cyclic", "chain"])
    names, inc = gen_graph(r, n, shape)
    loc = place(r, names, nested)
    files = []
    abs_name = {x: dotted(loc, x) for x in names}
    as_init = set(x for x in names if r.chance(init_classes, 100))
    zdefs = []
    for x in names:
        incs = []
        for y in inc[x]:
            nm = abs_name[y]
            if relative and r.chance(relative, 100):
                # an init class lives one directory deeper but resolves from its grandparent
                nm = relative_name(r, loc[x], loc[y], y)
            incs.append(nm)
        for _ in range(missing):
            if r.chance(35, 100):
                incs.insert(r.below(len(incs) + 1), r.choice(["missing.one", "gone", "missing_two", ".relmissing", "odd\\$[q]", "a$[b]", "sp ace"]))
        extra = []
        if refnames and r.chance(refnames, 100) and names:
            tgt = r.choice(names)
            extra.append(["sel", abs_name[tgt]])
        if param_refs and r.chance(param_refs, 100):
            extra.append(["ref_" + x, r.choice(["${last}", "got-${last}", "${m:who}", "${order}", "${_reclass_:name:short}"])])
        if refnames and incs and r.chance(refnames // 2, 100):
            # a class-level include written as a reference whose value comes from a class merged earlier (zdefs);
            # on cyclic graphs this makes the back edge a reference-bearing name
            j = r.below(len(incs))
            zdefs.append(["inc_%s_%d" % (x, j), incs[j]])
            incs[j] = "${inc_%s_%d}" % (x, j)
        body = class_body(r, abs_name[x], incs, extra_params=extra)
        if x in as_init:
            path = "classes/" + "/".join(loc[x] + [x, "init"]) + "." + r.choice(["yml", "yaml"])
        else:
            path = cls_file(loc[x] + [x], r.choice(["yml", "yml", "yaml"]))
        files.append({"path": path, "content": body})
    node_files = []
    for i in range(n_nodes):
        nn = "n%d" % i
        incs = [abs_name[x] for x in r.shuffle(names)[: r.range(0, min(3, n))]]
        if refnames and r.chance(refnames, 100) and incs:
            incs.insert(r.range(1, len(incs)), "${sel}")
        if missing and r.chance(40, 100):
            incs.insert(r.below(len(incs) + 1), r.choice(["missing.one", "gone"]))
        params = [["order", [nn]], ["own", nn]]
        if param_refs and r.chance(param_refs, 100):
            params.append(["r", r.choice(["${last}", "${_reclass_:name:full}", "x-${_reclass_:name:path}", "${m}"])])
        if i < fail_nodes:
            params.append(["boom", "${does:not:exist}"])
        body = {"classes": incs, "parameters": G.M(params)}
        if r.chance(60, 100):
            body["applications"] = [r.choice(["app_a", "~app_a", "app_n", "app_b", "~app_c"]) for _ in range(r.range(1, 3))]
        d = r.choice([[], ["g1"], ["_hid"], ["g1", "g2"], ["g.dot"]]) if node_dirs else []
        node_files.append({"path": "nodes/" + "/".join(d + [nn]) + "." + r.choice(["yml", "yaml"]), "content": body})
    if zdefs:
        files.append({"path": "classes/zdefs.yml", "content": {"parameters": G.M(zdefs)}})
        for nf in node_files:
            nf["content"]["classes"] = ["zdefs"] + nf["content"].get("classes", [])
    config = {"compose_node_name": compose}
    if cfg:
        config.update(cfg)
    return {"op": "inventory", "config": config, "files": files + node_files}


SEGS = ["a", "b", "c.d", "_u", "x-1", "init", ".h", "e", "reinit"]
NAMES = ["a", "b", "c.d", "_u", "init", ".h", "foo.bar", "a.b.c", "init.x", "e", "cloud-init", "reinit", "xinit", "initx", "_init", "a.init"]


def gen_tree(r, kind_root, n_files, max_depth=3, symlinks=True, strays=True, dir_yml=True):
    """Random file tree below classes/ or nodes/: list of protocol file entries whose content
    records the file's own path as a parameter."""
    files = []
    used = set()
    dirs = [[]]
    for _ in range(n_files):
        d = list(r.choice(dirs))
        if len(d) < max_depth and r.chance(50, 100):
            d = d + [r.choice(SEGS)]
            dirs.append(d)
        name = r.choice(NAMES)
        ext = r.choice(["yml", "yml", "yaml"])
        p = "/".join([kind_root] + d + [name + "." + ext])
        if p in used:
            continue
        used.add(p)
        files.append({"path": p, "content": {"parameters": G.M([["marker", p], ["where", [p]]])}})
    if strays:
        for _ in range(r.range(0, 3)):
            d = list(r.choice(dirs))
            p = "/".join([kind_root] + d + [r.choice(["README", "notes.txt", "x.yml.bak", "y.json", ".yml", "noext", "z.YML", "trail."])])
            if p not in used:
                used.add(p)
                files.append({"path": p, "raw": "just: text\n"})
    if dir_yml and r.chance(25, 100):
        d = list(r.choice(dirs))
        p = "/".join([kind_root] + d + [r.choice(["dir.yml", "sub.yaml"])])
        if p not in used and not any(u.startswith(p + "/") or u == p for u in used):
            used.add(p)
            files.append({"path": p, "kind": "dir"})
    if symlinks and r.chance(35, 100) and len(dirs) > 1:
        # symlink to a directory elsewhere in the tree (relative target), or to a file
        src = r.choice([d for d in dirs if d])
        link_parent = []
        ln = "/".join([kind_root] + link_parent + ["lnk%d" % r.below(3)])
        if ln not in used and not any(u.startswith(ln + "/") for u in used):
            used.add(ln)
            files.append({"path": ln, "kind": "symlink", "target": "/".join(src)})
    if symlinks and r.chance(25, 100) and files:
        tgt = r.choice([f for f in files if "content" in f] or [None])
        if tgt is not None:
            ln = kind_root + "/flink%d.yml" % r.below(3)
            if ln not in used:
                used.add(ln)
                files.append({"path": ln, "kind": "symlink", "target": tgt["path"][len(kind_root) + 1:]})
    return files
