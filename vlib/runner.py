"""The check flow shared by all properties."""
import json
import os
import sys
import time

from . import core
from .core import BuildError


class Prop:
    """Base class; one subclass per property in vlib/props."""
    id = "C00"
    rule = ""

    def cases(self, tier, seed):
        """yield request dicts"""
        return []

    def corpus(self):
        """directed clause cases and minimised past failures; always run first"""
        p = os.path.join(core.VERIF, "corpus", self.id)
        out = []
        if os.path.isdir(p):
            for f in sorted(os.listdir(p)):
                if f.endswith(".json"):
                    data = json.load(open(os.path.join(p, f)))
                    for c in (data if isinstance(data, list) else [data]):
                        c = dict(c)
                        c.setdefault("_src", f)
                        out.append(c)
        return out

    # ---- comparison; override where the agreement relation is not plain equality
    def judge(self, req, impl, reply):
        """Return dict(agree=bool, spec_ok=bool|None, impl_oracle=bool|None, why=str)."""
        if "bad" in reply:
            return dict(agree=False, spec_ok=None, why="model rejected request: %s" % reply["bad"], skip=True)
        if isinstance(impl, dict) and "bad" in impl and "ok" not in impl:
            return dict(agree=False, spec_ok=None, why="harness rejected request: %s" % impl["bad"], skip=True)
        model = reply.get("model")
        agree = core.results_agree(impl, model)
        spec_ok = None
        if reply.get("spec") is not None:
            spec_ok = core.results_agree(impl, reply["spec"])
        ki, km = core.norm_result(impl, True)[0], core.norm_result(model, False)[0]
        concrete = (not agree) and not (ki == "err" and km == "err")
        return dict(agree=agree, spec_ok=spec_ok, why="" if agree else "observations differ", concrete=concrete)

    def nontrivial(self, req, impl, reply):
        return True

    def tags(self, req, impl, reply):
        return []

    def matches_known(self, finding, req, impl, reply):
        return False

    def static_checks(self):
        """Source-level obligations (e.g. the panic-site census). Returns [(name, payload)] for
        each obligation that no longer holds."""
        return []


def fmt_seconds(t):
    return round(t, 2)


def run_check(prop, tier, seed):
    t0 = time.time()
    pid = prop.id
    violations = []      # list of (line, replay payload)
    known_lines = []
    notes = []
    proof = None
    try:
        consts = core.extract_consts()
        core.build_harness()
        proof = core.lean_audit(pid, thorough=(tier == "thorough"))
    except BuildError as e:
        # the machinery itself cannot be built against the current tree: the property is no
        # longer shown to hold
        payload = {"property": pid, "kind": "build-failure", "what": e.what, "log": e.log,
                   "note": "the model/harness could not be rebuilt against /repo's current working tree; "
                           "no correspondence could be established"}
        path = core.write_replay(pid, "build", payload)
        ev = base_evidence(pid, tier, seed, proof, t0)
        ev["coverage"]["explanation"] = "build failed: %s" % e.what
        ev["violations"] = 1
        core.write_evidence(pid, ev)
        print("VIOLATION property=%s replay=%s no-failing-input-found" % (pid, path))
        return 1

    # proof obligations
    if proof["failures"]:
        payload = {"property": pid, "kind": "proof-obligation", "failures": proof["failures"],
                   "note": "theorem(s) no longer check against the model regenerated from the current source"}
        violations.append(("proof", payload, False))

    # static obligations tying the theorems to the source (census etc.)
    for (name, payload) in prop.static_checks():
        violations.append((name, payload, False))

    # correspondence
    all_cases = []
    seen_hash = set()
    for c in list(prop.corpus()) + list(prop.cases(tier, seed)):
        all_cases.append(c)
    srcs = [c.pop("_src", None) for c in all_cases]
    try:
        results = core.run_pipeline(all_cases, serial=getattr(prop, "serial", False))
    except BuildError as e:
        payload = {"property": pid, "kind": "pipeline-failure", "what": e.what, "log": e.log}
        path = core.write_replay(pid, "pipeline", payload)
        ev = base_evidence(pid, tier, seed, proof, t0)
        ev["violations"] = 1
        core.write_evidence(pid, ev)
        print("VIOLATION property=%s replay=%s no-failing-input-found" % (pid, path))
        return 1

    kf = core.known_findings()
    findings = [f for f in kf.get("findings", []) if f.get("property") == pid]
    tagcount = {}
    distinct_nontrivial = set()
    disagreements = []
    skipped = 0
    samples = []
    outcome_count = {}
    for (req, impl, reply) in results:
        j = prop.judge(req, impl, reply)
        if j.get("skip"):
            skipped += 1
            notes.append(j["why"])
            continue
        for t in prop.tags(req, impl, reply):
            tagcount[t] = tagcount.get(t, 0) + 1
        if prop.nontrivial(req, impl, reply):
            distinct_nontrivial.add(core.case_hash(req))
        if len(samples) < 3 and prop.nontrivial(req, impl, reply):
            samples.append({"request": req, "impl": impl, "model": reply.get("model")})
        bad = (not j["agree"]) or (j.get("spec_ok") is False) or (j.get("impl_oracle") is False)
        if bad:
            disagreements.append((req, impl, reply, j))

    if hasattr(prop, "post_check"):
        for (rq, im, rp, jj) in prop.post_check(results):
            jj["post"] = True
            disagreements.append((rq, im, rp, jj))

    # classify disagreements
    reported = 0
    known_hit = {}
    for (req, impl, reply, j) in disagreements:
        hit = None
        for f in findings:
            if prop.matches_known(f, req, impl, reply):
                hit = f
                break
        if hit is not None:
            known_hit[hit["id"]] = hit
            continue
        if reported >= 3:
            reported += 1
            continue
        # shrink
        want_concrete = (j.get("spec_ok") is False) or (j.get("impl_oracle") is False) or bool(j.get("concrete"))

        def still_fails(cand, _prop=prop, _want=want_concrete):
            r = core.run_pipeline([dict(cand)])
            rq, im, rp = r[0]
            jj = _prop.judge(rq, im, rp)
            if jj.get("skip"):
                return False
            bad = (not jj["agree"]) or (jj.get("spec_ok") is False) or (jj.get("impl_oracle") is False)
            if bad and _want:
                # keep a concrete failing input concrete while shrinking
                return (jj.get("spec_ok") is False) or (jj.get("impl_oracle") is False) or bool(jj.get("concrete"))
            return bad
        small = req
        if j.get("post"):
            # found by a cross-run oracle (twins, thread counts): a single re-run cannot reproduce it
            payload = {"property": pid, "kind": "correspondence", "request": req, "impl": impl, "model": reply.get("model") if isinstance(reply, dict) else None,
                       "judgement": j, "concrete_failing_input": bool(j.get("concrete")), "replay": "bin/check %s quick (cross-run oracle: %s)" % (pid, j.get("why", "")[:120])}
            violations.append(("case-%s" % core.case_hash(req), payload, bool(j.get("concrete"))))
            reported += 1
            continue
        try:
            small = core.shrink(req, still_fails, budget=(60 if reported == 0 else 25) if tier == "quick" else 300)
            r = core.run_pipeline([dict(small)])
            req2, impl2, reply2 = r[0]
            j2 = prop.judge(req2, impl2, reply2)
            if not ((not j2["agree"]) or (j2.get("spec_ok") is False) or (j2.get("impl_oracle") is False)):
                # not reproducible in a run of its own (schedule dependent): report what was observed
                req2, impl2, reply2, j2 = req, impl, reply, j
                j2 = dict(j2, note="observed in the batch run; a re-run of this case alone did not reproduce it")
        except Exception as e:  # shrinking must never hide the original
            req2, impl2, reply2, j2 = req, impl, reply, j
        concrete = (j2.get("spec_ok") is False) or (j2.get("impl_oracle") is False) or bool(j2.get("concrete"))
        payload = {"property": pid, "kind": "correspondence",
                   "request": req2, "impl": impl2, "model": reply2.get("model"), "spec": reply2.get("spec"),
                   "judgement": j2, "original_request": req,
                   "concrete_failing_input": concrete,
                   "broken": None if concrete else {
                       "correspondence": "model function(s) for op '%s' no longer agree with the implementation" % req.get("op"),
                       "theorems_depending_on_it": [t["name"] for t in proof["theorems"]]},
                   "replay": "bin/check replay <this file>"}
        violations.append(("case-%s" % core.case_hash(req2), payload, concrete))
        reported += 1

    # known findings are replayed from the corpus; report those that still fail
    for fid, f in known_hit.items():
        known_lines.append("KNOWN-FINDING: property=%s %s" % (pid, f["what"]))

    ev = base_evidence(pid, tier, seed, proof, t0)
    cov = ev["coverage"]
    cov["evaluations"] = len(results) - skipped
    cov["distinct_nontrivial"] = len(distinct_nontrivial)
    cov["rule"] = prop.rule
    cov["samples"] = samples if samples else [{"request": results[0][0]}] if results else []
    cov["disagreements_checked"] = len(disagreements)
    cov["known_findings_replayed"] = len(known_hit)
    cov["input_distribution"] = dict(sorted(tagcount.items()))
    cov["unrecognised_error_wording_accepted"] = core.WORDING_FALLBACK[0]
    cov["corpus_cases"] = len([s for s in srcs if s])
    if getattr(prop, "exhaustive", None):
        cov["exhaustive_part"] = prop.exhaustive.get(tier)
    if getattr(prop, "explanation", None):
        cov["explanation"] = prop.explanation
    if notes:
        cov["notes"] = notes[:5]
    ev["violations"] = len(violations)
    ev["wall_s"] = fmt_seconds(time.time() - t0)
    core.write_evidence(pid, ev)

    for l in known_lines:
        print(l)
    rc = 0
    seen_names = set()
    for (name, payload, concrete) in violations:
        if name in seen_names:
            continue
        seen_names.add(name)
        path = core.write_replay(pid, name, payload)
        suffix = "" if concrete else " no-failing-input-found"
        print("VIOLATION property=%s replay=%s%s" % (pid, path, suffix))
        rc = 1
    if rc == 0:
        print("OK property=%s tier=%s theorems=%d/%d cases=%d nontrivial=%d wall=%.1fs" % (
            pid, tier, proof["discharged"], proof["obligations"], len(results) - skipped,
            len(distinct_nontrivial), time.time() - t0))
    return rc


def base_evidence(pid, tier, seed, proof, t0):
    cov = {
        "obligations": proof["obligations"] if proof else 0,
        "discharged": proof["discharged"] if proof else 0,
        "checker_cmd": proof["checker_cmd"] if proof else "cd lean && lake build",
        "trusted_base": core.TRUSTED_BASE,
        "theorems": [{"name": t["name"], "statement": t.get("says", "")} for t in (proof["theorems"] if proof else [])],
        "axioms": proof.get("axioms", {}) if proof else {},
        "evaluations": 0,
        "distinct_nontrivial": 0,
        "samples": [],
    }
    return {
        "property_id": pid,
        "tier": tier,
        "seed": seed,
        "level": "proof",
        "coverage": cov,
        "assumptions": core.TRUSTED_BASE,
        "wall_s": fmt_seconds(time.time() - t0),
        "violations": 0,
    }
