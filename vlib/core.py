"""Orchestrator core: build, run the implementation and the model on the same cases,
compare, shrink, classify, write replay and evidence."""
import hashlib
import json
import sys as _sys
_sys.setrecursionlimit(20000)
import os
import re
import shutil
import subprocess
import sys
import tempfile
import time

from . import classify as C

VERIF = os.path.dirname(os.path.dirname(os.path.abspath(__file__)))
LEAN = os.path.join(VERIF, "lean")
HARNESS = os.path.join(VERIF, "harness")
RVH = os.path.join(HARNESS, "target", "debug", "rvh")
DRIVER = os.path.join(LEAN, ".lake", "build", "bin", "driver")
ALLOWED_AXIOMS = {"propext", "Classical.choice", "Quot.sound"}
FORBIDDEN = re.compile(r"\b(sorry|admit|native_decide|bv_decide|implemented_by)\b|^\s*axiom\s|\bunsafe\s|maxHeartbeats\s+0\b")

ENV = dict(os.environ)
ENV["CARGO_NET_OFFLINE"] = "true"


class BuildError(Exception):
    def __init__(self, what, log):
        super().__init__(what)
        self.what = what
        self.log = log


def sh(cmd, cwd=None, inp=None, timeout=None, env=None):
    p = subprocess.run(cmd, cwd=cwd, input=inp, capture_output=True, text=True, timeout=timeout, env=env or ENV)
    return p.returncode, p.stdout, p.stderr


# ----------------------------------------------------------------------------- build

def extract_consts():
    rc, out, err = sh([sys.executable, os.path.join(VERIF, "tools", "extract_consts.py")])
    if rc != 0:
        raise BuildError("extract_consts", out + err)
    return out.strip()


def build_harness():
    lock_src = "/repo/Cargo.lock"
    lock_dst = os.path.join(HARNESS, "Cargo.lock")
    if not os.path.exists(lock_dst):
        shutil.copy(lock_src, lock_dst)
    rc, out, err = sh(["cargo", "build", "--offline"], cwd=HARNESS, timeout=1800)
    if rc != 0:
        raise BuildError("harness (cargo build against /repo working tree)", err[-6000:])


def build_lean(targets):
    rc, out, err = sh(["lake", "build"] + targets, cwd=LEAN, timeout=3600)
    if rc != 0:
        raise BuildError("lean (lake build %s)" % " ".join(targets), (out + err)[-8000:])


def strip_comments(src):
    # remove /- ... -/ (nested not handled beyond one level is fine here) and -- comments
    out = []
    i = 0
    depth = 0
    n = len(src)
    while i < n:
        if src.startswith("/-", i):
            depth += 1
            i += 2
        elif depth > 0 and src.startswith("-/", i):
            depth -= 1
            i += 2
        elif depth > 0:
            i += 1
        elif src.startswith("--", i):
            while i < n and src[i] != "\n":
                i += 1
        else:
            out.append(src[i])
            i += 1
    return "".join(out)


def forbidden_scan():
    hits = []
    for root, _, files in os.walk(os.path.join(LEAN, "Reclass")):
        for f in files:
            if f.endswith(".lean"):
                p = os.path.join(root, f)
                src = strip_comments(open(p).read())
                # string literals may legitimately contain words; drop them
                src = re.sub(r'"(\\.|[^"\\])*"', '""', src)
                for ln, line in enumerate(src.split("\n"), 1):
                    if FORBIDDEN.search(line):
                        hits.append("%s:%d: %s" % (os.path.relpath(p, VERIF), ln, line.strip()))
    return hits


def props_table():
    return json.load(open(os.path.join(LEAN, "props.json")))


def lean_audit(pid, thorough=False):
    """Build the property's theorem module, print the axioms of every registered theorem and
    check them. Returns dict(obligations, discharged, theorems, checker_cmd, failures)."""
    table = props_table()
    entry = table[pid]
    thms = entry["theorems"]
    module = "Reclass.Props." + pid
    audit_file = os.path.join(LEAN, "Reclass", "Audit", pid + ".lean")
    os.makedirs(os.path.dirname(audit_file), exist_ok=True)
    prop_mods = [module] + [m for m in entry.get("modules", []) if m.startswith("Reclass.Props.")]
    lines = ["import %s" % m for m in prop_mods] + ["open Reclass"]
    for t in thms:
        lines.append("#print axioms %s" % t["name"])
    body = "\n".join(lines) + "\n"
    if not os.path.exists(audit_file) or open(audit_file).read() != body:
        open(audit_file, "w").write(body)
    cmd = "cd lean && lake build %s driver && lake env lean Reclass/Audit/%s.lean" % (" ".join(prop_mods), pid)
    failures = []
    try:
        build_lean(prop_mods + ["driver"])
    except BuildError as e:
        failures.append({"theorem": "(module %s does not build)" % module, "why": e.log[-3000:]})
        return dict(obligations=len(thms), discharged=0, theorems=thms, checker_cmd=cmd, failures=failures, axioms={})
    rc, out, err = sh(["lake", "env", "lean", audit_file], cwd=LEAN, timeout=1800)
    axioms = {}
    for m in re.finditer(r"'(\S+)' depends on axioms: \[([^\]]*)\]", out):
        axioms[m.group(1)] = [a.strip() for a in m.group(2).replace("\n", " ").split(",") if a.strip()]
    for m in re.finditer(r"'(\S+)' does not depend on any axioms", out):
        axioms[m.group(1)] = []
    discharged = 0
    for t in thms:
        full = t["name"] if t["name"].startswith("Reclass.") else "Reclass." + t["name"]
        ax = axioms.get(full, axioms.get(t["name"]))
        if ax is None:
            failures.append({"theorem": t["name"], "why": "not found by #print axioms: " + (out + err)[-500:]})
        elif not set(ax) <= ALLOWED_AXIOMS:
            failures.append({"theorem": t["name"], "why": "axioms %s" % ax})
        else:
            discharged += 1
    hits = forbidden_scan()
    if hits:
        failures.append({"theorem": "(source scan)", "why": "; ".join(hits[:10])})
        discharged = 0
    if thorough:
        mods = [module] + entry.get("modules", [])
        cmd += " && " + " && ".join("lake env leanchecker %s" % m for m in mods)
        for m in mods:
            rc, o, e = sh(["lake", "env", "leanchecker", m], cwd=LEAN, timeout=3600)
            if rc != 0:
                failures.append({"theorem": "(leanchecker %s)" % m, "why": (o + e)[-1000:]})
                discharged = 0
    return dict(obligations=len(thms), discharged=discharged, theorems=thms, checker_cmd=cmd,
                failures=failures, axioms=axioms)


# ----------------------------------------------------------------------------- pipeline

def run_pipeline(cases, serial=False):
    """cases: list of request dicts (each gets an id). Returns list of (req, impl, reply)."""
    if not cases:
        return []
    for i, c in enumerate(cases):
        c["id"] = i
    inp = "\n".join(json.dumps(c, ensure_ascii=False) for c in cases) + "\n"
    env = dict(ENV)
    if serial:
        env["RVH_SERIAL"] = "1"
    tmpd = tempfile.mkdtemp(prefix="verif-rvh-")
    env["RVH_TMP"] = tmpd
    try:
        return _run_pipeline(cases, inp, env)
    finally:
        subprocess.run(["chmod", "-R", "u+rwX", tmpd], capture_output=True)
        shutil.rmtree(tmpd, ignore_errors=True)


def _run_pipeline(cases, inp, env):
    rc, out1, err1 = sh([RVH, "run"], inp=inp, timeout=3600, env=env)
    if rc != 0:
        # the harness process died (abort / stack overflow / signal inside the implementation):
        # re-run in chunks, then case by case, and record the crash as that case's observation
        lines = inp.splitlines()
        outs = []
        CH = 32
        for i in range(0, len(lines), CH):
            chunk = lines[i:i + CH]
            rc2, o2, e2 = sh([RVH, "run"], inp="\n".join(chunk) + "\n", timeout=3600, env=env)
            if rc2 == 0 and len(o2.splitlines()) == len(chunk):
                outs.extend(o2.splitlines())
                continue
            for ln in chunk:
                try:
                    rc3, o3, e3 = sh([RVH, "run"], inp=ln + "\n", timeout=120, env=env)
                except subprocess.TimeoutExpired:
                    rc3, o3, e3 = -999, "", "timeout"
                if rc3 == 0 and o3.strip():
                    outs.append(o3.strip())
                else:
                    d = json.loads(ln)
                    d["impl"] = {"crash": rc3, "stderr": e3[-300:]}
                    outs.append(json.dumps(d, ensure_ascii=False))
        out1 = "\n".join(outs) + "\n"
    rc, out2, err2 = sh([DRIVER], inp=out1, timeout=3600)
    if rc != 0:
        raise BuildError("driver crashed (rc=%s)" % rc, err2[-3000:])
    reqs = [json.loads(l) for l in out1.splitlines() if l.strip()]
    reps = [json.loads(l) for l in out2.splitlines() if l.strip()]
    if len(reqs) != len(cases) or len(reps) != len(cases):
        raise BuildError("pipeline length mismatch", "%d cases, %d impl lines, %d model lines" % (len(cases), len(reqs), len(reps)))
    res = []
    for rq, rp in zip(reqs, reps):
        impl = rq.pop("impl", None)
        res.append((rq, impl, rp))
    return res


# ----------------------------------------------------------------------------- comparison

def canon(x):
    """Canonicalise an observation: flag sets are sets."""
    if isinstance(x, dict):
        d = {k: canon(v) for k, v in x.items()}
        if "m" in d and "c" in d and "o" in d:
            d["c"] = sorted(d["c"], key=lambda k: json.dumps(k, sort_keys=True))
            d["o"] = sorted(d["o"], key=lambda k: json.dumps(k, sort_keys=True))
        return d
    if isinstance(x, list):
        return [canon(v) for v in x]
    return x


def norm_result(r, is_impl):
    """Result observation -> ('ok', canon) | ('err', projection) | ('panic', msg) | ('bad', msg)"""
    if r is None:
        return ("none",)
    if "ok" in r:
        return ("ok", canon(r["ok"]))
    if "err" in r:
        e = r["err"]
        if is_impl and isinstance(e, str):
            e = C.classify(e)
        if e and e[0] == "panic":
            return ("panic", e[1] if len(e) > 1 else "")
        return ("err", C.err_projection(e))
    if "panic" in r:
        return ("panic", r["panic"])
    if "crash" in r:
        return ("crash", r["crash"])
    if "bad" in r:
        return ("bad", r["bad"])
    return ("ok", canon(r))


WORDING_FALLBACK = [0]


def _entity_texts(x):
    """Text forms of the entities a model error names (for the wording-independent comparison)."""
    if isinstance(x, str):
        return [x]
    if isinstance(x, bool):
        return ["true" if x else "false"]
    if isinstance(x, dict):
        if "s" in x:
            return [x["s"]]
        if "i" in x:
            return [str(x["i"])]
        return []
    if isinstance(x, list):
        out = []
        for y in x[1:] if x and isinstance(x[0], str) and x[0] in C.COMPARED else x:
            out += _entity_texts(y)
        return out
    return []


def _innermost_class(e):
    while e and e[0] == "nodeFailed" and len(e) > 2 and isinstance(e[2], list):
        e = e[2]
    return e[0] if e else None


def results_agree(impl, model):
    a = norm_result(impl, True)
    b = norm_result(model, False)
    if a[0] == "panic" and b[0] == "panic":
        return True
    if a == b:
        return True
    if a[0] == "err" and b[0] == "err" and isinstance(impl.get("err"), str):
        # The implementation's errors are text; the classifier recognises today's wording. A message it does
        # not recognise (reworded upstream) still agrees with the model's error when it names every entity the
        # model's error names -- the properties constrain that an error is raised and what it names, not its wording.
        raw = impl["err"]
        cls = C.classify(raw)
        if cls and (cls[0] == "other" or _innermost_class(cls) == "other"):
            if all(t in raw for t in _entity_texts(b[1])):
                WORDING_FALLBACK[0] += 1
                return True
    return a == b


def strip_flags(x):
    """Drop mapping flags (for comparisons of plain data)."""
    if isinstance(x, dict):
        if "m" in x and "c" in x and "o" in x:
            return {"m": [[strip_flags(k), strip_flags(v)] for k, v in x["m"]]}
        return {k: strip_flags(v) for k, v in x.items()}
    if isinstance(x, list):
        return [strip_flags(v) for v in x]
    return x


def case_hash(c):
    d = {k: v for k, v in c.items() if k != "id"}
    return hashlib.sha256(json.dumps(d, sort_keys=True, ensure_ascii=False).encode()).hexdigest()[:16]


# ----------------------------------------------------------------------------- shrinking

def shrink_candidates(x):
    """Yield structurally smaller variants of a JSON value."""
    if isinstance(x, list):
        for i in range(len(x)):
            yield x[:i] + x[i + 1:]
        for i in range(len(x)):
            for y in shrink_candidates(x[i]):
                yield x[:i] + [y] + x[i + 1:]
            if isinstance(x[i], (list, dict)) and x[i]:
                # hoist a child in place of its parent list element
                pass
    elif isinstance(x, dict):
        for k in list(x.keys()):
            if k in ("op", "id", "kind"):
                continue
            for y in shrink_candidates(x[k]):
                d = dict(x)
                d[k] = y
                yield d
    elif isinstance(x, str):
        if len(x) > 0:
            for i in range(len(x)):
                yield x[:i] + x[i + 1:]


def shrink(case, still_fails, budget=400):
    """Greedy structural shrinking; `still_fails(case) -> bool` re-runs both sides."""
    cur = case
    improved = True
    tries = 0
    while improved and tries < budget:
        improved = False
        for cand in shrink_candidates(cur):
            tries += 1
            if tries > budget:
                break
            try:
                if still_fails(cand):
                    cur = cand
                    improved = True
                    break
            except Exception:
                continue
    return cur


# ----------------------------------------------------------------------------- known findings

def known_findings():
    p = os.path.join(VERIF, "known_findings.json")
    if not os.path.exists(p):
        return {"findings": [], "fixed": []}
    return json.load(open(p))


# ----------------------------------------------------------------------------- evidence / replay

def write_replay(pid, name, payload):
    os.makedirs(os.path.join(VERIF, "replays"), exist_ok=True)
    p = os.path.join(VERIF, "replays", "%s-%s.json" % (pid, name))
    json.dump(payload, open(p, "w"), indent=1, ensure_ascii=False)
    return p


def write_evidence(pid, ev):
    os.makedirs(os.path.join(VERIF, "evidence"), exist_ok=True)
    p = os.path.join(VERIF, "evidence", pid + ".json")
    json.dump(ev, open(p, "w"), indent=1, ensure_ascii=False)
    return p


TRUSTED_BASE = [
    "Lean 4.33.0 kernel; axioms limited to propext, Classical.choice, Quot.sound (checked by #print axioms on every property theorem each run)",
    "hand-written Lean model (lean/Reclass/Model) tied to /repo's working tree by the differential correspondence check of this run (sampling, not proof)",
    "Rust harness rvh, compiled Lean driver, JSON codec, error-message classifier (vlib/classify.py)",
    "tools/extract_consts.py (regex extraction of constants from /repo/src into Model/Extracted.lean)",
    "libraries the model starts after: serde_yaml, yaml-merge-keys, serde derive glue, walkdir, std::path/fs, regex, rayon, chrono, serde_json/serde_yaml float formatting, PyO3/CPython, anyhow",
]


def site_census_check():
    rc, out, err = sh([sys.executable, os.path.join(VERIF, "tools", "site_census.py"), "--check"])
    try:
        res = json.loads(out)
    except Exception:
        res = {"error": (out + err)[-2000:]}
    return rc, res
