#!/usr/bin/env python3
"""Regenerates MANIFEST.json from tools/manifest_src.json + the set of built property modules."""
import json, os
ROOT = os.path.dirname(os.path.dirname(os.path.abspath(__file__)))
src = json.load(open(os.path.join(ROOT, "tools", "manifest_src.json")))
props = [json.loads(l) for l in open(os.path.join(ROOT, "properties.jsonl"))]
checks = []
na = []
ready = set(json.load(open(os.path.join(ROOT, 'tools', 'ready.json'))))
for p in props:
    pid = p["id"]
    e = src["props"].get(pid)
    have = os.path.exists(os.path.join(ROOT, "lean", "Reclass", "Props", pid + ".lean")) and \
        os.path.exists(os.path.join(ROOT, "vlib", "props", pid.lower() + ".py")) and pid in ready
    if e and e.get("claimed") and have:
        checks.append({
            "property_id": pid,
            "quick_cmd": "bin/check %s quick" % pid,
            "thorough_cmd": "bin/check %s thorough" % pid,
            "evidence_file": "evidence/%s.json" % pid,
            "replay_cmd_template": "bin/check replay {path}",
            "engine": "lean-model+rvh",
            "level_claimed": {"category": "proof", "text": e["text"], "design_ref": e.get("design_ref", "DESIGN.md section 7 (%s)" % pid)},
            "level_note": e["note"],
            "technique": e["technique"],
        })
    else:
        na.append({"property_id": pid, "reason": (e or {}).get("reason", "check not built yet in this round; the design (DESIGN.md section 7) applies the technique to it")})
m = {
    "version": 1,
    "setup_cmd": "bin/setup",
    "hooks": src["hooks"],
    "engines": src["engines"],
    "checks": checks,
    "notes": src["notes"],
    "not_applicable": na,
}
json.dump(m, open(os.path.join(ROOT, "MANIFEST.json"), "w"), indent=1)
print("claimed:", [c["property_id"] for c in checks])
