#!/usr/bin/env python3
"""Regenerate lean/props.json: for every property id, the theorem modules Props/Cxx*.lean and
every `theorem` declared in them (fully qualified), with the first line of its docstring."""
import json, os, re, glob
ROOT = os.path.dirname(os.path.dirname(os.path.abspath(__file__)))
PROPS = os.path.join(ROOT, "lean", "Reclass", "Props")
out = {}
for pid in sorted(set(re.match(r"(C\d+)", os.path.basename(f)).group(1) for f in glob.glob(os.path.join(PROPS, "C*.lean")))):
    extra = json.load(open(os.path.join(ROOT, "tools", "prop_modules.json"))).get(pid, [])
    files = [os.path.join(PROPS, pid + ".lean")] + [os.path.join(PROPS, e + ".lean") for e in extra]
    files = [f for f in files if os.path.exists(f)]
    if not files:
        continue
    thms = []
    mods = []
    for f in files:
        src = open(f).read()
        mods.append("Reclass.Props." + os.path.basename(f)[:-5])
        ns = []
        doc = None
        lines = src.split("\n")
        i = 0
        while i < len(lines):
            ln = lines[i]
            m = re.match(r"^namespace\s+(\S+)", ln)
            if m:
                ns.append(m.group(1))
            m = re.match(r"^end\s+(\S+)", ln)
            if m and ns and ns[-1] == m.group(1):
                ns.pop()
            if ln.startswith("/--"):
                d = ln[3:]
                j = i
                while "-/" not in lines[j]:
                    j += 1
                    d += " " + lines[j]
                doc = re.sub(r"\s+", " ", d.replace("-/", "")).strip()
            m = re.match(r"^(?:protected\s+)?theorem\s+(\S+)", ln)
            if m:
                name = ".".join(ns + [m.group(1)])
                says = (doc or "").split(". ")[0][:240]
                thms.append({"name": name, "says": says, "file": os.path.relpath(f, os.path.join(ROOT, "lean"))})
                doc = None
            elif re.match(r"^(def|example|lemma|instance|structure|inductive|abbrev)\b", ln):
                doc = None
            i += 1
    if os.path.basename(files[0]) != pid + ".lean":
        continue  # needs an umbrella module Props/Cxx.lean
    out[pid] = {"modules": [m for m in mods if m != "Reclass.Props." + pid], "theorems": thms}
json.dump(out, open(os.path.join(ROOT, "lean", "props.json"), "w"), indent=1)
print({k: len(v["theorems"]) for k, v in out.items()})
