#!/usr/bin/env python3
"""Before committing: every evidence/<id>.json must be schema-valid, come from a passing run on the unchanged tree
(discharged == obligations >= 1, no violation recorded), and MANIFEST.json must be schema-valid. Exit 1 otherwise."""
import json, os, subprocess, sys
ROOT = os.path.dirname(os.path.dirname(os.path.abspath(__file__)))
bad = []
try:
    import jsonschema
except ImportError:
    jsonschema = None
es = json.load(open("/root/.vp/EVIDENCE.schema.json"))
ms = json.load(open("/root/.vp/MANIFEST.schema.json"))
man = json.load(open(os.path.join(ROOT, "MANIFEST.json")))
if jsonschema:
    try:
        jsonschema.validate(man, ms)
    except Exception as e:
        bad.append("MANIFEST: %s" % str(e)[:200])
dirty = subprocess.run(["git", "-C", "/repo", "status", "--porcelain"], capture_output=True, text=True).stdout.strip()
if dirty:
    bad.append("/repo working tree is not clean: %s" % dirty[:200])
for c in man["checks"]:
    pid = c["property_id"]
    p = os.path.join(ROOT, "evidence", pid + ".json")
    if not os.path.exists(p):
        bad.append("%s: no evidence file" % pid)
        continue
    ev = json.load(open(p))
    if jsonschema:
        try:
            jsonschema.validate(ev, es)
        except Exception as e:
            bad.append("%s: schema: %s" % (pid, str(e)[:200]))
    cov = ev.get("coverage", {})
    if not (cov.get("obligations", 0) >= 1 and cov.get("discharged") == cov.get("obligations")):
        bad.append("%s: discharged %s of %s obligations (evidence from a failing run?)" % (pid, cov.get("discharged"), cov.get("obligations")))
    if ev.get("violations") or ev.get("verdict") not in (None, "pass", "ok", "OK"):
        bad.append("%s: records violations / verdict %s" % (pid, ev.get("verdict")))
print("\n".join(bad) if bad else "evidence and manifest valid (%d properties)" % len(man["checks"]))
sys.exit(1 if bad else 0)
