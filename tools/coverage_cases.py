#!/usr/bin/env python3
"""Run the quick case streams of all properties through the harness only (no model), for tools/coverage.sh."""
import importlib, json, os, subprocess, sys, tempfile, shutil
ROOT = os.path.dirname(os.path.dirname(os.path.abspath(__file__)))
sys.path.insert(0, ROOT)
rvh = os.environ["VERIF_RVH"]
for i in range(1, 21):
    pid = "C%02d" % i
    P = importlib.import_module("vlib.props.c%02d" % i).PROP
    cases = [dict(c) for c in P.corpus()] + list(P.cases("quick", 1))
    cases = [c for c in cases if c.get("op") != "crash" or not (c.get("chain", 0) >= 5000 or c.get("nest", 0) >= 20000)]
    for k, c in enumerate(cases):
        c["id"] = k
    tmpd = tempfile.mkdtemp(prefix="verif-cov-")
    env = dict(os.environ, RVH_TMP=tmpd)
    if getattr(P, "serial", False):
        env["RVH_SERIAL"] = "1"
    r = subprocess.run([rvh, "run"], input="\n".join(json.dumps(c, ensure_ascii=False) for c in cases) + "\n", capture_output=True, text=True, env=env)
    subprocess.run(["chmod", "-R", "u+rwX", tmpd], capture_output=True)
    shutil.rmtree(tmpd, ignore_errors=True)
    print(pid, len(cases), "rc", r.returncode, flush=True)
