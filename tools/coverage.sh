#!/bin/bash
# One-off analysis (not a registered check): which lines of /repo/src does the correspondence run execute?
# Builds the harness with -C instrument-coverage (nightly toolchain, the only one with llvm-tools here) into a scratch
# target dir, runs the quick case streams of all properties through it, and prints per-file line coverage plus the
# uncovered non-test functions.  usage: tools/coverage.sh [outdir]
set -eu
HERE=$(cd "$(dirname "$0")/.." && pwd)
OUT=${1:-$(mktemp -d /tmp/verif-cov.XXXXXX)}
TB=$HOME/.rustup/toolchains/nightly-x86_64-unknown-linux-gnu/lib/rustlib/x86_64-unknown-linux-gnu/bin
mkdir -p "$OUT/prof"
cd "$HERE/harness"
LLVM_PROFILE_FILE="$OUT/prof/build-%p-%m.profraw" RUSTFLAGS="--cfg reclass_rs_verif -A unexpected_cfgs -C instrument-coverage" CARGO_NET_OFFLINE=true \
  cargo +nightly build --offline --target-dir "$OUT/target" 2>&1 | tail -2
cd "$HERE"
LLVM_PROFILE_FILE="$OUT/prof/rvh-%p-%m.profraw" VERIF_RVH="$OUT/target/debug/rvh" python3 tools/coverage_cases.py
"$TB/llvm-profdata" merge -sparse "$OUT"/prof/*.profraw -o "$OUT/all.profdata"
"$TB/llvm-cov" report "$OUT/target/debug/rvh" -instr-profile="$OUT/all.profdata" --ignore-filename-regex='(\.cargo|rustc|harness/src|_tests\.rs|verif\.rs)' | tee "$OUT/report.txt"
"$TB/llvm-cov" show "$OUT/target/debug/rvh" -instr-profile="$OUT/all.profdata" --ignore-filename-regex='(\.cargo|rustc|harness/src|_tests\.rs|verif\.rs)' --show-line-counts-or-regions > "$OUT/show.txt"
echo "details: $OUT/show.txt"
