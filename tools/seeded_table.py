#!/usr/bin/env python3
"""Regenerate seeded/SUMMARY.md from seeded/*/meta.json and seeded/*/result.json."""
import json, os, glob
ROOT = os.path.dirname(os.path.dirname(os.path.abspath(__file__)))
rows = []
benign = []
for d in sorted(glob.glob(os.path.join(ROOT, "seeded", "*/"))):
    name = os.path.basename(d.rstrip("/"))
    meta = json.load(open(os.path.join(d, "meta.json"))) if os.path.exists(os.path.join(d, "meta.json")) else {}
    res = json.load(open(os.path.join(d, "result.json"))) if os.path.exists(os.path.join(d, "result.json")) else {}
    checks = res.get("checks", {})
    caught = [p for p, v in checks.items() if v["rc"] != 0]
    missed = [p for p, v in checks.items() if v["rc"] == 0]
    concrete = []
    for p in caught:
        if any(l.startswith("VIOLATION") and "no-failing-input-found" not in l for l in checks[p]["lines"]):
            concrete.append(p)
    if meta.get("kind") == "benign":
        benign.append((name, meta.get("area", ""), caught, missed, res.get("note", "")))
        continue
    rows.append((name, meta.get("breaks", "?"), meta.get("change", ""), meta.get("needs", ""), caught, concrete, missed, meta.get("note", "")))
out = ["# Seeded regressions and which checks catch them", "",
       "Each change was written by a fresh sub-agent that saw only the property text and a scratch worktree, compiles, passes the unedited",
       "284 tests, and was re-confirmed with `tools/confirm_mutant.sh`. `tools/run_seeded.py` applied it to /repo, ran the listed quick checks and undid it.", "",
       "| change | breaks | what it is | needs | caught by (concrete replay) | ran clean |", "|---|---|---|---|---|---|"]
for name, br, ch, needs, caught, concrete, missed, note in rows:
    cb = ", ".join("%s%s" % (p, "*" if p in concrete else "") for p in caught) or "—"
    out.append("| %s | %s | %s | %s | %s | %s |" % (name, br, ch, needs, cb, ", ".join(missed) or "—"))
out += ["", "`*` = the VIOLATION line carries a concrete failing input (no `no-failing-input-found` suffix).", ""]
notes = [(n, note) for n, _, _, _, _, _, _, note in rows if note]
if notes:
    out.append("## Notes")
    for n, note in notes:
        out.append("* **%s**: %s" % (n, note))
out += ["", "## Behaviour-preserving refactors (no check may report anything)", "",
        "Written by sub-agents asked for a realistic maintenance change in one area that changes no observable result; all pass the unedited tests.", "",
        "| change | area | alarms | checks that ran silently | note |", "|---|---|---|---|---|"]
for name, area, caught, missed, note in benign:
    out.append("| %s | %s | %s | %s | %s |" % (name, area, ", ".join(caught) or "none", "all 20" if len(missed) == 20 else ", ".join(missed), note))
open(os.path.join(ROOT, "seeded", "SUMMARY.md"), "w").write("\n".join(out) + "\n")
print("\n".join(out[5:]))
