#!/usr/bin/env python3
"""Regenerate lean/Reclass/Model/Extracted.lean from /repo/src on every run.

Constants the model depends on are read from the source text.  A constant found with a new
value regenerates the model with that value.  If the source no longer has the shape a
pattern looks for, the committed value (tools/extract_fallback.json) is used and the name
is reported in lean/extract_status.json; the correspondence run still exercises it."""
import json
import os
import re
import sys

REPO = os.environ.get("VERIF_REPO", "/repo")
OUT = os.path.join(os.path.dirname(os.path.dirname(os.path.abspath(__file__))), "lean", "Reclass", "Model", "Extracted.lean")


def read(p):
    try:
        return open(os.path.join(REPO, p)).read()
    except OSError:
        return ""


def strip_tests(src):
    i = src.find("#[cfg(test)]")
    return src if i < 0 else src[:i]


def lean_str(s):
    return '"' + s.replace("\\", "\\\\").replace('"', '\\"') + '"'


def main():
    refs = read("src/refs/mod.rs")
    lib = strip_tests(read("src/lib.rs"))
    types = read("src/types/mod.rs")
    node = strip_tests(read("src/node/mod.rs"))
    nodeinfo = strip_tests(read("src/node/nodeinfo.rs"))
    config = strip_tests(read("src/config.rs"))
    defs = []
    missing = []
    fallback = json.load(open(os.path.join(os.path.dirname(os.path.abspath(__file__)), "extract_fallback.json")))

    # When the source no longer has the shape a pattern looks for (a constant was introduced, a literal moved),
    # the value cannot be re-read. The committed value of the pinned tree is used instead and the name is
    # reported (evidence: constants_not_located); the correspondence run still exercises every place the
    # constant matters, so a changed value shows up there. A located constant with a new value regenerates the model.
    def emit(name, ty, val):
        if val is None:
            missing.append(name)
            defs.append("def %s : %s := %s" % (name, ty, fallback[name]))
        else:
            defs.append("def %s : %s := %s" % (name, ty, val))

    m = re.search(r"const\s+RESOLVE_MAX_DEPTH\s*:\s*usize\s*=\s*(\d+)\s*;", refs)
    emit("resolveMaxDepth", "Nat", m.group(1) if m else None)

    m = re.search(r"const\s+SUPPORTED_YAML_EXTS\s*:\s*\[&str;\s*\d+\]\s*=\s*\[([^\]]*)\]", lib)
    exts = re.findall(r'"([^"]*)"', m.group(1)) if m else None
    emit("yamlExts", "List String", "[" + ", ".join(lean_str(e) for e in exts) + "]" if exts is not None else None)

    m1 = re.search(r"'(.)'\s*=>\s*Some\(Self::Constant\)", types)
    m2 = re.search(r"'(.)'\s*=>\s*Some\(Self::Override\)", types)
    emit("constMarker", "Char", "'%s'" % m1.group(1) if m1 else None)
    emit("overrideMarker", "Char", "'%s'" % m2.group(1) if m2 else None)

    m = re.search(r'format!\("(\w+://)\{\}"', node)
    emit("uriPrefix", "String", lean_str(m.group(1)) if m else None)
    m = re.search(r'\.insert\("(_\w+_)"\.into\(\)', node)
    emit("reclassKey", "String", lean_str(m.group(1)) if m else None)
    m = re.search(r'cls\.ends_with\("(\w+)"\)', lib)
    emit("initName", "String", lean_str(m.group(1)) if m else None)
    m = re.search(r'NodeInfoMeta::new\(name, name, &uri, meta_parts, "(\w+)"\)', node)
    emit("environment", "String", lean_str(m.group(1)) if m else None)
    m = re.search(r'cls\.contains\("([^"]+)"\)', node)
    emit("classRefMarker", "String", lean_str(m.group(1)) if m else None)

    m = re.search(r"match value \{\s*((?:\s*\|?\s*\"[^\"]+\"\s*)+)=>\s*Ok\(Self::ComposeNodeNameLiteralDots\)", config)
    flags = re.findall(r'"([^"]+)"', m.group(1)) if m else None
    emit("compatFlagSpellings", "List String", "[" + ", ".join(lean_str(e) for e in flags) + "]" if flags is not None else None)

    # option keys: the string-literal match arms inside fn set_option (brace-matched body). A list that is only a
    # part of the committed one means some arms are no longer written as literals (constants, helper functions):
    # treated as not located. A key that disappears for real shows up in the correspondence (the option is ignored).
    opts = None
    mf = re.search(r"fn\s+set_option\b", config)
    if mf:
        i = config.find("{", mf.end())
        depth, j = 0, i
        while j < len(config):
            if config[j] == "{":
                depth += 1
            elif config[j] == "}":
                depth -= 1
                if depth == 0:
                    break
            j += 1
        body = config[i:j]
        opts = re.findall(r'"(\w+)"\s*(?:\|\s*"\w+"\s*)*=>', body)
        committed = re.findall(r'"(\w+)"', fallback["optionKeys"])
        if not opts or (set(opts) < set(committed)):
            opts = None
    emit("optionKeys", "List String", "[" + ", ".join(lean_str(e) for e in opts) + "]" if opts else None)
    m = re.search(r'ignore_class_notfound_regexp:\s*vec!\["([^"]*)"\.to_string\(\)\]', config)
    if not m:
        # the default may be named: ignore_class_notfound_regexp: vec![NAME.to_string()] with const NAME: &str = "..."
        mc = re.search(r'ignore_class_notfound_regexp:\s*vec!\[\s*([A-Z_][A-Z0-9_]*)\s*\.(?:to_string|to_owned|into)\(\)\s*\]', config)
        if mc:
            m = re.search(r'const\s+%s\s*:\s*&(?:\'static\s+)?str\s*=\s*"([^"]*)"\s*;' % re.escape(mc.group(1)), config)
    emit("defaultIgnorePattern", "String", lean_str(m.group(1)) if m else None)
    m = re.search(r'"(\w+)"\.to_string\(\)\),\s*\n\s*// We need custom formatting for bool', strip_tests(read("src/types/value.rs")))
    emit("noneText", "String", lean_str(m.group(1)) if m else None)

    body = ("/- GENERATED by tools/extract_consts.py from /repo/src on every run. Do not edit. -/\n"
            "namespace Reclass.Extracted\n\n" + "\n".join(defs) + "\n\nend Reclass.Extracted\n")
    old = open(OUT).read() if os.path.exists(OUT) else None
    if old != body:
        os.makedirs(os.path.dirname(OUT), exist_ok=True)
        open(OUT, "w").write(body)
    json.dump({"not_located": missing}, open(os.path.join(os.path.dirname(OUT), "..", "..", "extract_status.json"), "w"))
    print("extracted %d constants%s" % (len(defs), (" NOT LOCATED (committed value used): " + ",".join(missing)) if missing else ""))


if __name__ == "__main__":
    main()
