#!/bin/bash
# usage: confirm_mutant.sh <ID> <seeded-name>
# Confirms in the scratch worktree /tmp/mut/<ID>: with the patch the existing suite passes and the demo fails;
# without it the demo passes. Then copies patch + demo into /verif/seeded/<name>/.
set -u
ID=$1; NAME=$2; BASE=${3:-/tmp/mut}; W=$BASE/$ID
cd $W || exit 2
export CARGO_NET_OFFLINE=true
DEMO=$(ls tests/demo_*.rs | head -1); DEMON=$(basename $DEMO .rs)
git diff -- src > $BASE/$ID.patch
[ -s $BASE/$ID.patch ] || cp patch.diff $BASE/$ID.patch
echo "== with patch: existing suite"
cargo test --offline --no-fail-fast 2>&1 | grep -E "^test result|^     Running|Doc-tests" | paste - - | grep -v "$DEMON" | awk '{print $NF, $0}' | cut -c1-200
echo "== with patch: demo"
cargo test --offline --test $DEMON 2>&1 | grep -E "^test result|FAILED" | tr '\n' ' '; echo
git checkout -q -- src
echo "== without patch: demo"
cargo test --offline --test $DEMON 2>&1 | grep -E "^test result|FAILED" | tr '\n' ' '; echo
git apply $BASE/$ID.patch
mkdir -p /verif/seeded/$NAME
cp $BASE/$ID.patch /verif/seeded/$NAME/patch.diff
cp $DEMO /verif/seeded/$NAME/
[ -f NOTES.md ] && cp NOTES.md /verif/seeded/$NAME/NOTES.md
echo copied to /verif/seeded/$NAME
