#!/usr/bin/env python3
"""Apply a seeded change to /repo, run checks, undo it.  usage: run_seeded.py <seeded-dir> [props...]
Writes <seeded-dir>/result.json: which checks reported a violation."""
import json, os, subprocess, sys, time
ROOT = os.path.dirname(os.path.dirname(os.path.abspath(__file__)))
d = os.path.abspath(sys.argv[1])
props = sys.argv[2:] or [c["property_id"] for c in json.load(open(os.path.join(ROOT, "MANIFEST.json")))["checks"]]
patch = os.path.join(d, "patch.diff")
assert subprocess.run(["git", "-C", "/repo", "status", "--porcelain"], capture_output=True, text=True).stdout.strip() == "", "/repo not clean"
r = subprocess.run(["git", "-C", "/repo", "apply", patch], capture_output=True, text=True)
if r.returncode != 0:
    # the patch was written against an earlier commit of /repo (see meta.json "base"): merge it onto the current tree
    r = subprocess.run(["git", "-C", "/repo", "apply", "--3way", patch], capture_output=True, text=True)
    subprocess.run(["git", "-C", "/repo", "reset", "-q"], capture_output=True)   # keep the change in the working tree only
    if r.returncode != 0:
        subprocess.run(["git", "-C", "/repo", "checkout", "--", "."])
        subprocess.run(["git", "-C", "/repo", "clean", "-fdq", "src/", "tests/"])
        print("patch does not apply to the current /repo HEAD (written against %s):" % "an earlier commit", r.stderr[:300])
        sys.exit(2)
res = {}
# evidence/ and replays/ describe the unchanged tree; keep them out of the way while the patch is applied
import shutil, tempfile
keep = tempfile.mkdtemp(prefix="verif-keep-")
for sub in ("evidence", "replays"):
    if os.path.isdir(os.path.join(ROOT, sub)):
        shutil.copytree(os.path.join(ROOT, sub), os.path.join(keep, sub))
try:
    for p in props:
        t = time.time()
        out = subprocess.run([os.path.join(ROOT, "bin", "check"), p, "quick"], capture_output=True, text=True, cwd=ROOT)
        lines = [l for l in out.stdout.splitlines() if l.startswith(("VIOLATION", "KNOWN-FINDING", "OK "))]
        res[p] = {"rc": out.returncode, "lines": lines, "wall_s": round(time.time() - t, 1)}
        for l in lines:
            if l.startswith("VIOLATION"):
                path = l.split("replay=")[1].split()[0]
                try:
                    pl = json.load(open(path))
                    res[p].setdefault("why", []).append((pl.get("judgement") or {}).get("why") or pl.get("kind"))
                except Exception:
                    pass
        print(p, out.returncode, lines[:3], flush=True)
finally:
    subprocess.run(["git", "-C", "/repo", "checkout", "--", "."], check=True)
    subprocess.run(["git", "-C", "/repo", "clean", "-fdq", "tests/", "src/"], check=False)   # files the patch created
    subprocess.run(["cargo", "build", "--offline"], cwd=os.path.join(ROOT, "harness"), capture_output=True)
    subprocess.run([sys.executable, os.path.join(ROOT, "tools", "extract_consts.py")], capture_output=True)
    # keep the replays of this run next to the result, then restore the clean tree's evidence and replays
    rp = os.path.join(d, "replays")
    shutil.rmtree(rp, ignore_errors=True)
    os.makedirs(rp, exist_ok=True)
    for p in props:
        named = [l.split("replay=")[1].split()[0] for l in res.get(p, {}).get("lines", []) if l.startswith("VIOLATION") and "replay=" in l]
        for f in named[:3]:
            if os.path.isfile(f) and os.path.getsize(f) < 100000:
                shutil.copy(f, os.path.join(rp, os.path.basename(f)))
    for sub in ("evidence", "replays"):
        if os.path.isdir(os.path.join(keep, sub)):
            shutil.rmtree(os.path.join(ROOT, sub), ignore_errors=True)
            shutil.copytree(os.path.join(keep, sub), os.path.join(ROOT, sub))
    shutil.rmtree(keep, ignore_errors=True)
json.dump({"checks": res, "caught_by": [p for p, v in res.items() if v["rc"] != 0]}, open(os.path.join(d, "result.json"), "w"), indent=1)
print("caught by:", [p for p, v in res.items() if v["rc"] != 0])
