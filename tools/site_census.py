#!/usr/bin/env python3
"""Census of panic sites and of constructs that can carry state between renders, in
/repo/src outside tests and outside the verification hooks.

  site_census.py            print the census as JSON
  site_census.py --check    compare with tools/site_table.json; exit 1 and list differences

Sites are keyed by (file, enclosing fn, kind, ordinal within that fn), never by line number,
so reformatting and unrelated edits do not disturb the table."""
import json
import os
import re
import sys

REPO = os.environ.get("VERIF_REPO", "/repo")
HERE = os.path.dirname(os.path.abspath(__file__))
TABLE = os.path.join(HERE, "site_table.json")

PANIC_PATTERNS = [
    ("unwrap", re.compile(r"\.unwrap\(\)")),
    ("expect", re.compile(r"\.expect\(")),
    ("panic", re.compile(r"\bpanic!\s*\(")),
    ("todo", re.compile(r"\btodo!\s*\(")),
    ("unreachable", re.compile(r"\bunreachable!\s*\(")),
    ("unimplemented", re.compile(r"\bunimplemented!\s*\(")),
    ("assert", re.compile(r"\b(assert|assert_eq|assert_ne)!\s*\(")),
    ("index", re.compile(r"[A-Za-z0-9_\)\]]\[[^\]\n]*\]")),
    ("unwrap_unchecked", re.compile(r"unwrap_unchecked|get_unchecked|from_utf8_unchecked")),
]
STATE_PATTERNS = [
    ("static_mut", re.compile(r"\bstatic\s+mut\b")),
    ("thread_local", re.compile(r"\bthread_local!\s*")),
    ("lazy", re.compile(r"\b(lazy_static!|OnceCell|OnceLock|LazyLock|LazyCell|Lazy<)")),
    ("static_interior", re.compile(r"\bstatic\s+\w+\s*:\s*[^=;]*\b(Mutex|RwLock|Atomic\w+|RefCell|Cell)\b")),
    ("field_interior", re.compile(r"^\s*(pub(\([^)]*\))?\s+)?\w+\s*:\s*[^,\n]*\b(Mutex|RwLock|Atomic\w+|RefCell|Cell|OnceCell|OnceLock)\s*<")),
    ("unsafe", re.compile(r"\bunsafe\s*(\{|fn|impl)")),
]


def strip_code(src):
    """Blank out comments, string and char literals (keeping newlines and length)."""
    out = []
    i, n = 0, len(src)
    while i < n:
        c = src[i]
        if src.startswith("//", i):
            j = src.find("\n", i)
            j = n if j < 0 else j
            out.append(" " * (j - i))
            i = j
        elif src.startswith("/*", i):
            j = src.find("*/", i + 2)
            j = n if j < 0 else j + 2
            out.append(re.sub(r"[^\n]", " ", src[i:j]))
            i = j
        elif c == '"' or (c == "r" and re.match(r'r#*"', src[i:])):
            if c == "r":
                m = re.match(r'r(#*)"', src[i:])
                hashes = m.group(1)
                end = src.find('"' + hashes, i + len(m.group(0)))
                j = n if end < 0 else end + 1 + len(hashes)
            else:
                j = i + 1
                while j < n and src[j] != '"':
                    j += 2 if src[j] == "\\" else 1
                j += 1
            out.append('"' + re.sub(r"[^\n]", " ", src[i + 1:j - 1]) + '"')
            i = j
        elif c == "'" and re.match(r"'(\\.[^']*|[^'\\])'", src[i:]):
            m = re.match(r"'(\\.[^']*|[^'\\])'", src[i:])
            out.append("' " + " " * (len(m.group(0)) - 3) + "'")
            i += len(m.group(0))
        else:
            out.append(c)
            i += 1
    return "".join(out)


def drop_cfg_items(code, attr_re):
    """Blank the item (block or `;`-terminated) following each attribute matching attr_re."""
    out = code
    for m in list(re.finditer(attr_re, code)):
        i = m.end()
        # find the first '{' or ';' after the attribute (skipping further attributes)
        j = i
        depth = 0
        while j < len(out) and out[j] not in "{;":
            j += 1
        if j >= len(out):
            continue
        if out[j] == ";":
            end = j + 1
        else:
            depth = 0
            k = j
            while k < len(out):
                if out[k] == "{":
                    depth += 1
                elif out[k] == "}":
                    depth -= 1
                    if depth == 0:
                        break
                k += 1
            end = k + 1
        out = out[:m.start()] + re.sub(r"[^\n]", " ", out[m.start():end]) + out[end:]
    return out


def census():
    sites = []
    state = []
    files = []
    for root, _, fs in os.walk(os.path.join(REPO, "src")):
        for f in fs:
            if f.endswith(".rs"):
                files.append(os.path.join(root, f))
    for p in sorted(files):
        rel = os.path.relpath(p, REPO)
        base = os.path.basename(p)
        if base.endswith("_tests.rs") or "tests" in base or base == "verif.rs":
            continue
        code = strip_code(open(p).read())
        code = drop_cfg_items(code, r"#\[cfg\(test\)\]")
        code = drop_cfg_items(code, r"#\[cfg\(reclass_rs_verif\)\]")
        # enclosing fn by brace tracking
        fn_stack = []  # (name, depth)
        depth = 0
        counters = {}
        pending_fn = None
        tail = ""   # the last non-blank characters before the current line (method chains span lines)
        for ln in code.split("\n"):
            m = re.search(r"\bfn\s+([A-Za-z0-9_]+)", ln)
            if m:
                pending_fn = m.group(1)
            cur = fn_stack[-1][0] if fn_stack else "<module>"
            if pending_fn and "{" in ln and (not fn_stack or pending_fn != fn_stack[-1][0] or True):
                pass
            # record sites on this line under the innermost fn (a fn's signature line counts for it)
            name_here = pending_fn if (pending_fn and m) else cur
            for kind, rx in PANIC_PATTERNS:
                for mm in rx.finditer(ln):
                    if kind == "index":
                        t = mm.group(0)
                        # attributes, array types/literals and slices of generics are not indexing
                        if re.match(r".\[\s*\]", t) or ln.lstrip().startswith("#"):
                            continue
                    key = (rel, name_here, kind)
                    counters[key] = counters.get(key, 0) + 1
                    # what the site is applied to: the name of the last call before it (`to_str` in
                    # `p.to_str().unwrap()`), independent of variable names and layout
                    before = tail + re.sub(r"\s+", "", ln[:mm.start()])
                    cm = re.search(r"([A-Za-z0-9_]+)(\([^()]*\))?$", before)
                    ctx = cm.group(1) if cm and kind in ("unwrap", "expect") else ""
                    sites.append({"file": rel, "fn": name_here, "kind": kind, "ordinal": counters[key], "ctx": ctx})
            tail = (tail + re.sub(r"\s+", "", ln))[-200:]
            for kind, rx in STATE_PATTERNS:
                if rx.search(ln):
                    state.append({"file": rel, "fn": name_here, "kind": kind, "text": ln.strip()[:120]})
            for ch in ln:
                if ch == "{":
                    depth += 1
                    if pending_fn is not None:
                        fn_stack.append((pending_fn, depth))
                        pending_fn = None
                elif ch == "}":
                    if fn_stack and fn_stack[-1][1] == depth:
                        fn_stack.pop()
                    depth -= 1
            if pending_fn is not None and ";" in ln and "{" not in ln:
                pending_fn = None  # trait method declaration without body
    return {"panic_sites": sites, "shared_state": state}


def key(s):
    return "%s::%s::%s#%d" % (s["file"], s["fn"], s["kind"], s["ordinal"])


def main():
    c = census()
    if "--check" not in sys.argv:
        print(json.dumps(c, indent=1))
        return 0
    table = json.load(open(TABLE))
    known = set(table["panic_sites"].keys())
    now = set(key(s) for s in c["panic_sites"])
    new = sorted(now - known)
    gone = sorted(known - now)
    # A site that moved (a helper was split off, a function renamed, code moved to another file) or whose
    # `unwrap()` became an `expect("…")` is the same site: pair each new site with a vanished one of the same
    # kind (unwrap and expect count as one kind) applied to the same call, preferring the same file, then the
    # same function name, then anywhere.
    ctx_now = {key(s): s.get("ctx") for s in c["panic_sites"]}

    def kc(k):
        kd = k.split("::")[2].split("#")[0]
        return "unwrap" if kd == "expect" else kd
    pool = list(gone)
    moved = []
    for k in list(new):
        f, fn, _ = k.split("::")
        cands = [g for g in pool if kc(g) == kc(k) and table["panic_sites"][g].get("ctx") is not None and table["panic_sites"][g]["ctx"] == ctx_now[k]]
        cands.sort(key=lambda g: (g.split("::")[0] != f, g.split("::")[1] != fn))
        if cands:
            pool.remove(cands[0])
            new.remove(k)
            moved.append([cands[0], k])
    res = {"new_sites": new, "vanished_sites": gone, "moved_sites": moved,
           "shared_state": c["shared_state"], "expected_shared_state": table.get("shared_state", []),
           "n_sites": len(now)}
    print(json.dumps(res, indent=1))
    bad = bool(new) or [s["text"] for s in c["shared_state"]] != [s["text"] for s in table.get("shared_state", [])]
    return 1 if bad else 0


if __name__ == "__main__":
    sys.exit(main())
